// F1: a Byzantine helper that rewrites one chunk it sends (MPC or shard traffic), and the channel
// inventory used to enumerate tampering sites.  Plugged into TestWorldConfig::stream_interceptor.

use std::{
    collections::BTreeMap,
    sync::{Arc as StdArc, Mutex as StdMutex},
};

use serde_json::{Value, json};

use crate::{
    helpers::{
        HelperIdentity,
        in_memory_config::{DynStreamInterceptor, InspectContext, StreamInterceptor},
    },
    sync::Arc,
    verif::sim::*,
};

/// (kind, src, dst, shard, gate): kind "mpc": src/dst are helper indices 0..2, shard is the shard the
/// ring belongs to; kind "shard": src/dst are shard indices, `shard` holds the helper index.
#[derive(Clone, Debug, PartialEq, Eq, PartialOrd, Ord)]
pub struct ChanKey {
    pub kind: &'static str,
    pub src: usize,
    pub dst: usize,
    pub shard: usize,
    pub gate: String,
}

impl ChanKey {
    pub fn to_json(&self) -> Value {
        json!({"kind": self.kind, "src": self.src, "dst": self.dst, "shard": self.shard, "gate": self.gate})
    }
    pub fn from_json(v: &Value) -> Self {
        Self {
            kind: if ps(v, "kind") == "shard" { "shard" } else { "mpc" },
            src: pu(v, "src"),
            dst: pu(v, "dst"),
            shard: pu(v, "shard"),
            gate: ps(v, "gate").to_string(),
        }
    }
    /// the helper (0..2) that emits traffic on this channel
    pub fn sender_helper(&self) -> usize {
        if self.kind == "shard" { self.shard } else { self.src }
    }
}

#[derive(Clone, Debug)]
pub struct Site {
    pub chan: ChanKey,
    /// n-th chunk on that channel (0-based); ignored when `stream_off` is set
    pub chunk: usize,
    /// absolute byte position in the channel's byte stream (independent of how it is chunked)
    pub stream_off: Option<usize>,
    /// byte offset (taken modulo the chunk length)
    pub offset: usize,
    /// flip:<bit> | add1 | set0 | setff | trunc:<k> | extend:<k> | addle:<width> (little-endian +1 on a width-byte field)
    pub pattern: String,
}

impl Site {
    pub fn to_json(&self) -> Value {
        json!({"chan": self.chan.to_json(), "chunk": self.chunk, "offset": self.offset, "pattern": self.pattern, "stream_off": self.stream_off})
    }
    pub fn from_json(v: &Value) -> Self {
        Self {
            chan: ChanKey::from_json(&v["chan"]),
            chunk: pu(v, "chunk"),
            offset: pu(v, "offset"),
            pattern: ps(v, "pattern").to_string(),
            stream_off: v.get("stream_off").and_then(Value::as_u64).map(|x| x as usize),
        }
    }
    pub fn list_from_json(v: &Value) -> Vec<Self> {
        match v {
            Value::Array(a) => a.iter().map(Self::from_json).collect(),
            Value::Null => Vec::new(),
            one => vec![Self::from_json(one)],
        }
    }
}

#[derive(Default, Clone, Debug)]
pub struct ChanStat {
    pub chunks: usize,
    pub bytes: usize,
    pub first_seq: usize,
    pub max_chunk: usize,
}

#[derive(Default)]
pub struct FaultLog {
    pub chans: BTreeMap<ChanKey, ChanStat>,
    pub fired: Vec<Value>,
    pub seq: usize,
    /// adaptive adversary: first field element of every MAC-key opening stream seen so far, by (src helper, dst helper)
    pub key_shares: BTreeMap<(usize, usize), [u8; 4]>,
    /// chunks of a forge site that went by before the adversary could know the key
    pub forge_too_early: u64,
    pub forged: bool,
    /// (src helper, dst helper, shard) of every MAC-key opening stream seen so far
    pub key_seen_on: std::collections::BTreeSet<(usize, usize, usize)>,
}

pub struct Tamper {
    pub sites: Vec<Site>,
    pub log: StdMutex<FaultLog>,
}

fn hidx(h: HelperIdentity) -> usize {
    if h == HelperIdentity::ONE {
        0
    } else if h == HelperIdentity::TWO {
        1
    } else {
        2
    }
}

pub fn apply_pattern(pattern: &str, offset: usize, data: &mut Vec<u8>) -> bool {
    if data.is_empty() && !pattern.starts_with("extend") {
        return false;
    }
    let (name, arg) = match pattern.split_once(':') {
        Some((n, a)) => (n, a.parse::<usize>().unwrap_or(0)),
        None => (pattern, 0),
    };
    let len = data.len().max(1);
    let o = offset % len;
    match name {
        "flip" => data[o] ^= 1 << (arg % 8),
        "add1" => data[o] = data[o].wrapping_add(1),
        "set0" => {
            if data[o] == 0 {
                data[o] = 1;
            } else {
                data[o] = 0;
            }
        }
        "setff" => {
            if data[o] == 0xff {
                data[o] = 0xfe;
            } else {
                data[o] = 0xff;
            }
        }
        "trunc" => {
            let k = arg.max(1).min(data.len());
            data.truncate(data.len() - k);
        }
        "extend" => {
            for i in 0..arg.max(1) {
                data.push(0xA5 ^ (i as u8));
            }
        }
        "addle" => {
            // +1 on the little-endian field of `arg` bytes that contains `offset`
            let w = arg.max(1);
            let start = (o / w) * w;
            let end = (start + w).min(data.len());
            let mut carry = true;
            for b in &mut data[start..end] {
                if carry {
                    let (v, c) = b.overflowing_add(1);
                    *b = v;
                    carry = c;
                }
            }
        }
        "poison" => {
            // overwrite the first whole `arg`-byte record of the chunk with bytes that do not decode (harness message type)
            let w = arg.max(1);
            if data.len() < w {
                return false;
            }
            for b in &mut data[..w] {
                *b = crate::verif::msg::POISON;
            }
        }
        "suble" => {
            // -1 on the little-endian field of `arg` bytes that contains `offset`
            let w = arg.max(1);
            let start = (o / w) * w;
            let end = (start + w).min(data.len());
            let mut borrow = true;
            for b in &mut data[start..end] {
                if borrow {
                    let (v, c) = b.overflowing_sub(1);
                    *b = v;
                    borrow = c;
                }
            }
        }
        _ => panic!("harness: unknown tamper pattern {pattern}"),
    }
    true
}

impl StreamInterceptor for Tamper {
    type Context = InspectContext;

    fn peek(&self, ctx: &InspectContext, data: &mut Vec<u8>) {
        let key = match ctx {
            InspectContext::MpcMessage { shard, source, dest, gate } => ChanKey {
                kind: "mpc",
                src: hidx(*source),
                dst: hidx(*dest),
                shard: shard.map_or(0, usize::from),
                gate: gate.as_ref().to_string(),
            },
            InspectContext::ShardMessage { helper, source, dest, gate } => ChanKey {
                kind: "shard",
                src: usize::from(*source),
                dst: usize::from(*dest),
                shard: hidx(*helper),
                gate: gate.as_ref().to_string(),
            },
        };
        let mut log = self.log.lock().unwrap();
        log.seq += 1;
        let seq = log.seq;
        let st = log.chans.entry(key.clone()).or_default();
        let chunk_no = st.chunks;
        let stream_pos = st.bytes;
        if st.chunks == 0 {
            st.first_seq = seq;
        }
        st.chunks += 1;
        st.bytes += data.len();
        st.max_chunk = st.max_chunk.max(data.len());
        // what a helper legitimately learns when the shuffle's MAC keys are opened: its own two shares (it sends them) and the
        // missing one (it receives two copies). Keys are the same on all shards of a query.
        if key.kind == "mpc" && key.gate.contains("reveal_m_a_c_key") && stream_pos == 0 && data.len() >= 4 {
            log.key_shares.entry((key.src, key.dst)).or_insert([data[0], data[1], data[2], data[3]]);
            log.key_seen_on.insert((key.src, key.dst, key.shard));
        }
        for site in &self.sites {
            if let Some(rec_len) = site.pattern.strip_prefix("forge_mac:").and_then(|a| a.parse::<usize>().ok()) {
                // adaptive forgery on one of the corrupt helper's own streams: as soon as the helper can know MAC key 1, add
                // (1, 0, .., 0 | key_1) to the first whole record of the chunk - a change every tag check is blind to
                if site.chan != key || log.forged || rec_len < 8 {
                    continue;
                }
                let c = key.src;
                let own_l = log.key_shares.get(&(c, (c + 1) % 3)).copied();
                let own_r = log.key_shares.get(&(c, (c + 2) % 3)).copied();
                let missing = log.key_shares.get(&((c + 1) % 3, c)).or_else(|| log.key_shares.get(&((c + 2) % 3, c))).copied();
                let start = (rec_len - stream_pos % rec_len) % rec_len;
                match (own_l, own_r, missing) {
                    (Some(a), Some(b), Some(m)) if start + rec_len <= data.len() => {
                        let before = fnv_bytes(FNV0, data);
                        data[start] ^= 1;
                        for k in 0..4 {
                            data[start + rec_len - 4 + k] ^= a[k] ^ b[k] ^ m[k];
                        }
                        log.forged = true;
                        // did a peer already open its key share to the corrupt helper on THIS shard (i.e. before this shard's
                        // tables were all delivered), or does the knowledge come from other shards of the query only?
                        let (recipient, third) = (key.dst, 3 - c - key.dst);
                        let by_recipient = log.key_seen_on.contains(&(recipient, c, key.shard));
                        let by_third = log.key_seen_on.contains(&(third, c, key.shard));
                        log.fired.push(json!({"chunk_len": data.len(), "before": format!("{before:016x}"), "after": format!("{:016x}", fnv_bytes(FNV0, data)), "seq": seq, "gate": key.gate,
                            "forged_record_at": stream_pos + start, "key_opened_here_by_recipient": by_recipient, "key_opened_here_by_third_helper": by_third}));
                    }
                    _ => log.forge_too_early += 1,
                }
                continue;
            }
            let same_chan = if site.chan.gate == "*" {
                site.chan.kind == key.kind && site.chan.src == key.src && site.chan.dst == key.dst && site.chan.shard == key.shard
            } else if let Some(part) = site.chan.gate.strip_prefix('~') {
                // "~text": any gate of that (kind, src, dst, shard) whose name contains the text
                site.chan.kind == key.kind && site.chan.src == key.src && site.chan.dst == key.dst && site.chan.shard == key.shard && key.gate.contains(part)
            } else {
                site.chan == key
            };
            if !same_chan {
                continue;
            }
            let hit = match site.stream_off {
                Some(so) => so >= stream_pos && so < stream_pos + data.len(),
                None => site.chunk == chunk_no,
            };
            if hit {
                let off = site.stream_off.map_or(site.offset, |so| so - stream_pos);
                let before = fnv_bytes(FNV0, data);
                let before_len = data.len();
                if apply_pattern(&site.pattern, off, data) {
                    log.fired.push(json!({"chunk_len": before_len, "before": format!("{before:016x}"), "after": format!("{:016x}", fnv_bytes(FNV0, data)), "seq": seq, "gate": key.gate}));
                }
            }
        }
    }
}

pub fn tamper(site: Option<Site>) -> (StdArc<Tamper>, DynStreamInterceptor) {
    tamper_many(site.into_iter().collect())
}

/// As `tamper`, with the corrupt helper's OWN MAC-key shares known from the start (a helper knows its own shares; the harness
/// reads them off that helper's own opening messages in the honest run of the same seed). What the peers open to it must
/// still be observed live.
pub fn tamper_knowing_own_keys(site: Option<Site>, own: &BTreeMap<(usize, usize), [u8; 4]>, corrupt: usize) -> (StdArc<Tamper>, DynStreamInterceptor) {
    let (t, i) = tamper_many(site.into_iter().collect());
    {
        let mut log = t.log.lock().unwrap();
        for ((src, dst), v) in own {
            if *src == corrupt {
                log.key_shares.insert((*src, *dst), *v);
            }
        }
    }
    (t, i)
}

pub fn tamper_many(sites: Vec<Site>) -> (StdArc<Tamper>, DynStreamInterceptor) {
    let t = StdArc::new(Tamper { sites, log: StdMutex::new(FaultLog::default()) });
    let t2 = StdArc::clone(&t);
    let dynamic: DynStreamInterceptor = Arc::new(move |ctx: &InspectContext, data: &mut Vec<u8>| t2.peek(ctx, data));
    (t, dynamic)
}

/// Pick a tampering site from an inventory: channel chosen by `pick_chan` among those matching
/// `filter`, then a seeded chunk / offset / pattern.
pub fn draw_site(inv: &BTreeMap<ChanKey, ChanStat>, filter: &dyn Fn(&ChanKey) -> bool, r: &mut Rng, patterns: &[&str]) -> Option<Site> {
    let cands: Vec<(&ChanKey, &ChanStat)> = inv.iter().filter(|(k, s)| s.bytes > 0 && filter(k)).collect();
    if cands.is_empty() {
        return None;
    }
    // stratify by stage (third path component without its index: a stage with hundreds of bit-level gates must not
    // crowd out the others), then by gate name (every step gets a fair share), then by channel
    let stage_of = |g: &str| g.split('/').nth(2).unwrap_or("").trim_end_matches(char::is_numeric).to_string();
    let mut stages: Vec<String> = cands.iter().map(|(k, _)| stage_of(&k.gate)).collect();
    stages.sort_unstable();
    stages.dedup();
    let st = stages[r.below(stages.len())].clone();
    let mut gates: Vec<&str> = cands.iter().filter(|(k, _)| stage_of(&k.gate) == st).map(|(k, _)| k.gate.as_str()).collect();
    gates.sort_unstable();
    gates.dedup();
    let g = gates[r.below(gates.len())];
    let in_gate: Vec<&(&ChanKey, &ChanStat)> = cands.iter().filter(|(k, _)| k.gate == g).collect();
    let (k, s) = in_gate[r.below(in_gate.len())];
    Some(Site {
        chan: (*k).clone(),
        chunk: r.below(s.chunks),
        offset: r.below(s.max_chunk.max(1)),
        pattern: r.pick(patterns).to_string(),
        stream_off: None,
    })
}
