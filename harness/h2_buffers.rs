// C14 scenarios — child module of `helpers::buffers` (reaches CircularBuf / OrderingSender /
// UnorderedReceiver internals).
//
//  * c14_os   : OrderingSender under n writer tasks + closer + reader task, any interleaving
//  * c14_ur   : UnorderedReceiver fed by a network task, any chunking × request order × timing
//  * c14_ring : CircularBuf against a VecDeque<u8> reference over seeded operation sequences

use std::{
    collections::VecDeque,
    num::NonZeroUsize,
    sync::{
        Arc as StdArc, Mutex as StdMutex,
        atomic::{AtomicBool, AtomicU64, Ordering as AO},
    },
};

use futures::{StreamExt, future::join_all};
use generic_array::ArrayLength;
use serde_json::{Value, json};
use typenum::{U1, U2, U3, U4, U5, U8, U14, U32};

use super::{
    OrderingSender, UnorderedReceiver,
    circular::CircularBuf,
};
use crate::{
    sync::Arc,
    verif::{
        msg::{Raw, payload},
        sim::{self, *},
    },
};

pub fn scenarios() -> Vec<&'static dyn Scenario> {
    vec![&OsScenario, &UrScenario, &RingScenario]
}

macro_rules! by_size {
    ($n:expr, $f:ident, $($arg:expr),*) => {
        match $n {
            1 => $f::<U1>($($arg),*),
            2 => $f::<U2>($($arg),*),
            3 => $f::<U3>($($arg),*),
            4 => $f::<U4>($($arg),*),
            5 => $f::<U5>($($arg),*),
            8 => $f::<U8>($($arg),*),
            14 => $f::<U14>($($arg),*),
            32 => $f::<U32>($($arg),*),
            n => panic!("harness: unsupported message size {n}"),
        }
    };
}

// ------------------------------------------------------------------------------------------------
// OrderingSender
// ------------------------------------------------------------------------------------------------

pub struct OsScenario;

impl Scenario for OsScenario {
    fn name(&self) -> &'static str {
        "c14_os"
    }

    fn generate(&self, seed: u64, tier: Tier) -> Value {
        let mut r = Rng::sub(seed, 14_01);
        let w = r.pick(&[1usize, 2, 3, 4, 8, 14]);
        let cap_units = r.range(1, 8);
        let read_units = r.range(1, cap_units);
        let max_n = if tier == Tier::Quick { 24 } else { 48 };
        let n = r.range(0, max_n);
        let writers = r.range(1, 6).min(n.max(1));
        // assign indices to writers
        let mut owner: Vec<usize> = (0..n).map(|_| r.below(writers)).collect();
        if r.chance(1, 4) {
            // round-robin ownership: maximal hand-over between tasks
            owner = (0..n).map(|i| i % writers).collect();
        }
        let modes: Vec<usize> = (0..writers).map(|_| r.below(3)).collect(); // 0 = sequential, 1 = join_all in seeded order, 2 = sequential, first polled once with a throw-away waker (now_or_never) and then awaited
        let close = r.chance(3, 4);
        let est = 40 + (n as u64) * 12;
        let reader_try_first = r.chance(1, 3);
        json!({"reader_try_first": reader_try_first,
            "w": w, "cap_units": cap_units, "read_units": read_units, "n": n,
            "owner": owner, "modes": modes, "close": close, "order_seed": r.next_u64() >> 12,
            "sched": SchedSpec::draw(&mut r, est, 200_000),
        })
    }

    fn exec(&self, p: &Value, explicit: Option<Vec<u32>>) -> RunRes {
        by_size!(pu(p, "w"), os_exec, p, explicit)
    }
}

#[derive(Default)]
struct OsLog {
    chunks: Vec<Vec<u8>>,
    reader_done: bool,
    writers_done: usize,
    blocked_polls: u64,
}

fn os_exec<N: ArrayLength + Send + Sync + 'static>(p: &Value, explicit: Option<Vec<u32>>) -> RunRes
where
    generic_array::GenericArray<u8, N>: Send + Sync,
{
    let w = pu(p, "w");
    let cap = pu(p, "cap_units") * w;
    let read = pu(p, "read_units") * w;
    let n = pu(p, "n");
    let owner = pvec(p, "owner");
    let modes = pvec(p, "modes");
    let close = pb(p, "close");
    let reader_try_first = pb(p, "reader_try_first");
    let order_seed = pu64(p, "order_seed");
    let writers = modes.len();
    if writers == 0 || owner.len() < n || owner.iter().any(|o| *o >= writers) || read > cap || read == 0 {
        return RunRes::invalid("os: inconsistent writer layout or sizes");
    }
    let spec = SchedSpec::from_json(&p["sched"], explicit);
    let shape = format!("os w{w} c{cap} r{read} n{n} wr{writers} cl{close}");

    let log = StdArc::new(StdMutex::new(OsLog::default()));
    let log2 = StdArc::clone(&log);
    let owner2 = owner.clone();
    let modes2 = modes.clone();
    let total_bytes = n * w;
    // bytes the reader can expect without a close: only whole read-size chunks are ever released
    let expect_bytes = if close { total_bytes } else { (total_bytes / read) * read };

    let outcome = run_sim(&spec, StdArc::new(AtomicBool::new(false)), move || {
        let log = StdArc::clone(&log2);
        let owner = owner2.clone();
        let modes = modes2.clone();
        shuttle::future::block_on(async move {
            let sender = Arc::new(OrderingSender::new(
                NonZeroUsize::new(cap).unwrap(),
                NonZeroUsize::new(w).unwrap(),
                NonZeroUsize::new(read).unwrap(),
            ));
            let mut handles = Vec::new();
            for wr in 0..writers {
                let mine: Vec<usize> = (0..n).filter(|i| owner[*i] == wr).collect();
                let sender = Arc::clone(&sender);
                let log = StdArc::clone(&log);
                let mode = modes[wr];
                handles.push(shuttle::future::spawn(async move {
                    if mode == 0 {
                        for i in mine {
                            sender.send(i, Raw::<N>::tagged(7, i as u64)).await;
                        }
                    } else if mode == 2 {
                        // "try first, then wait": the first poll registers a waker that is gone afterwards; a future must
                        // wake the waker of its most recent poll
                        for i in mine {
                            use futures::FutureExt;
                            let mut f = std::pin::pin!(sender.send(i, Raw::<N>::tagged(7, i as u64)));
                            if (&mut f).now_or_never().is_none() {
                                f.await;
                            }
                        }
                    } else {
                        let mut order = mine.clone();
                        Rng::sub(order_seed, wr as u64).shuffle(&mut order);
                        join_all(order.into_iter().map(|i| {
                            let sender = &sender;
                            async move { sender.send(i, Raw::<N>::tagged(7, i as u64)).await }
                        }))
                        .await;
                    }
                    log.lock().unwrap().writers_done += 1;
                }));
            }
            if close {
                let sender = Arc::clone(&sender);
                handles.push(shuttle::future::spawn(async move {
                    sender.close(n).await;
                }));
            }
            {
                let sender = Arc::clone(&sender);
                let log = StdArc::clone(&log);
                handles.push(shuttle::future::spawn(async move {
                    let mut got = 0usize;
                    let mut stream = futures::stream::poll_fn(|cx| sender.take_next(cx));
                    while got < expect_bytes || close {
                        let first = if reader_try_first {
                            use futures::FutureExt;
                            stream.next().now_or_never()
                        } else {
                            None
                        };
                        let item = match first {
                            Some(x) => x,
                            None => stream.next().await,
                        };
                        match item {
                            Some(chunk) => {
                                got += chunk.len();
                                log.lock().unwrap().chunks.push(chunk);
                            }
                            None => break,
                        }
                    }
                    log.lock().unwrap().reader_done = true;
                }));
            }
            for h in handles {
                h.await.unwrap();
            }
        });
    });

    let l = log.lock().unwrap();
    // ---- oracle ----
    let mut expect = Vec::with_capacity(total_bytes);
    for i in 0..n {
        expect.extend_from_slice(&payload(7, i as u64, w));
    }
    let got: Vec<u8> = l.chunks.iter().flatten().copied().collect();
    let nontrivial = outcome.decisions > 0 && n > 1;
    // 1. whatever was emitted is a prefix of the in-index-order concatenation
    if got.len() > expect.len() || got[..] != expect[..got.len()] {
        let first_bad = got.iter().zip(expect.iter()).position(|(a, b)| a != b).unwrap_or(expect.len());
        return RunRes::violation(
            "os_wrong_bytes",
            format!("emitted bytes differ from concat-by-index at offset {first_bad} (got {} bytes, expected {})", got.len(), expect.len()),
            shape, Some(outcome));
    }
    // 2. chunk sizes: exactly `read` until close, then the remainder
    for (k, c) in l.chunks.iter().enumerate() {
        let last = k + 1 == l.chunks.len();
        if c.is_empty() || c.len() > read || (!last && c.len() != read) || (last && !close && c.len() != read) {
            return RunRes::violation(
                "os_chunk_size",
                format!("chunk {k} of {} has {} bytes, read size {read}, close={close}", l.chunks.len(), c.len()),
                shape, Some(outcome));
        }
    }
    // 3. progress: with a reader that keeps taking, every writer completes and everything is emitted
    match outcome.class {
        "finished" => {
            if got.len() != expect_bytes || !l.reader_done || l.writers_done != writers {
                return RunRes::violation(
                    "os_lost_bytes",
                    format!("run finished but emitted {} of {} bytes (writers done {}/{writers})", got.len(), expect_bytes, l.writers_done),
                    shape, Some(outcome));
            }
        }
        "deadlock" | "stepcap" => {
            return RunRes::violation(
                "os_no_progress",
                format!("{}: emitted {} of {} bytes, writers done {}/{writers}: {}", outcome.class, got.len(), expect_bytes, l.writers_done,
                    outcome.panic_msg.clone().unwrap_or_default()),
                shape, Some(outcome));
        }
        _ => {
            return RunRes::violation(
                "os_panic",
                format!("unexpected panic: {}", outcome.panic_msg.clone().unwrap_or_default()),
                shape, Some(outcome));
        }
    }
    let mut res = RunRes::pass(shape, nontrivial, Some(outcome));
    res.probe("chunks", l.chunks.len() as u64);
    if cap < total_bytes {
        res.probe("buffer_smaller_than_stream", 1);
    }
    res
}

// ------------------------------------------------------------------------------------------------
// UnorderedReceiver
// ------------------------------------------------------------------------------------------------

pub struct UrScenario;

impl Scenario for UrScenario {
    fn name(&self) -> &'static str {
        "c14_ur"
    }

    fn generate(&self, seed: u64, tier: Tier) -> Value {
        let mut r = Rng::sub(seed, 14_02);
        let w = r.pick(&[1usize, 2, 3, 4, 8, 14]);
        let cap = r.pick(&[2usize, 3, 4, 8]);
        let max_n = if tier == Tier::Quick { 24 } else { 64 };
        let n = r.range(0, max_n);
        // chunking of the n*w byte stream (empty chunks included)
        let total = n * w;
        let mut cuts = Vec::new();
        let mut pos = 0usize;
        let style = r.below(4);
        while pos < total {
            let len = match style {
                0 => 1,
                1 => r.range(0, 2 * w),
                2 => r.range(1, (total - pos).max(1)),
                _ => r.range(0, 5),
            }
            .min(total - pos);
            cuts.push(len);
            pos += len;
        }
        let tasks = r.range(1, 5);
        let owner: Vec<usize> = (0..n).map(|_| r.below(tasks)).collect();
        let modes: Vec<usize> = (0..tasks).map(|_| r.below(3)).collect(); // 2 = sequential, each receive polled once with a throw-away waker, then awaited
        let ask_eos = r.chance(1, 2);
        let est = 40 + (n as u64) * 10 + cuts.len() as u64 * 3;
        // faults on the byte stream: undecodable records (the request gets an error, the others are unaffected) and a transport
        // error between two chunks (the stream ends there; what follows must never be delivered as if it were contiguous)
        let bad: Vec<usize> = if n > 0 && r.chance(1, 4) { (0..r.range(1, 2)).map(|_| r.below(n)).collect() } else { vec![] };
        let err_at = if r.chance(1, 6) { json!(r.below(cuts.len() + 1)) } else { Value::Null };
        json!({
            "w": w, "cap": cap, "n": n, "cuts": cuts, "owner": owner, "modes": modes, "bad": bad, "err_at": err_at,
            "ask_eos": ask_eos, "order_seed": r.next_u64() >> 12,
            "sched": SchedSpec::draw(&mut r, est, 200_000),
        })
    }

    fn exec(&self, p: &Value, explicit: Option<Vec<u32>>) -> RunRes {
        by_size!(pu(p, "w"), ur_exec, p, explicit)
    }
}

#[derive(Default)]
struct UrLog {
    got: Vec<(usize, Result<Vec<u8>, String>)>,
    eos: Option<Result<Vec<u8>, String>>,
    ahead_of_capacity: u64,
}

fn ur_exec<N: ArrayLength + Send + Sync + 'static>(p: &Value, explicit: Option<Vec<u32>>) -> RunRes
where
    generic_array::GenericArray<u8, N>: Send + Sync,
{
    let w = pu(p, "w");
    let cap = pu(p, "cap");
    let n = pu(p, "n");
    let cuts = pvec(p, "cuts");
    let owner = pvec(p, "owner");
    let modes = pvec(p, "modes");
    let ask_eos = pb(p, "ask_eos");
    let order_seed = pu64(p, "order_seed");
    let tasks = modes.len();
    let spec = SchedSpec::from_json(&p["sched"], explicit);
    let shape = format!("ur w{w} c{cap} n{n} k{} t{tasks} e{ask_eos}", cuts.len());

    let bad: Vec<usize> = p.get("bad").map(|_| pvec(p, "bad")).unwrap_or_default();
    let err_at: Option<usize> = p.get("err_at").and_then(Value::as_u64).map(|x| x as usize);
    let mut bytes = Vec::new();
    for i in 0..n {
        if bad.contains(&i) {
            bytes.extend(std::iter::repeat(crate::verif::msg::POISON).take(w));
        } else {
            bytes.extend_from_slice(&payload(9, i as u64, w));
        }
    }
    if tasks == 0 || owner.len() < n || owner.iter().any(|o| *o >= tasks) || cap < 2 || bad.iter().any(|b| *b >= n) {
        return RunRes::invalid("ur: inconsistent receiver layout");
    }
    let mut chunks: Vec<Vec<u8>> = Vec::new();
    let mut pos = 0;
    for c in &cuts {
        let c = (*c).min(bytes.len() - pos);
        chunks.push(bytes[pos..pos + c].to_vec());
        pos += c;
    }
    if pos < bytes.len() {
        chunks.push(bytes[pos..].to_vec());
    }

    // bytes that arrive before the injected transport error
    let nchunks = chunks.len();
    let delivered: usize = match err_at { Some(k) => chunks.iter().take(k).map(Vec::len).sum(), None => bytes.len() };
    let log = StdArc::new(StdMutex::new(UrLog::default()));
    let log2 = StdArc::clone(&log);
    let owner2 = owner.clone();
    let modes2 = modes.clone();
    let chunks2 = chunks.clone();

    let outcome = run_sim(&spec, StdArc::new(AtomicBool::new(false)), move || {
        let log = StdArc::clone(&log2);
        let owner = owner2.clone();
        let modes = modes2.clone();
        let chunks = chunks2.clone();
        shuttle::future::block_on(async move {
            let (tx, rx) = ::tokio::sync::mpsc::unbounded_channel::<Result<Vec<u8>, std::io::Error>>();
            // the transport's own adapter: ends the byte stream at the first error item
            let stream = crate::helpers::LogErrors::new(tokio_stream::wrappers::UnboundedReceiverStream::new(rx));
            let recv = UnorderedReceiver::new(Box::pin(stream), NonZeroUsize::new(cap).unwrap());
            let mut handles = Vec::new();
            // the "network": delivers chunk after chunk, when the scheduler lets it
            handles.push(shuttle::future::spawn(async move {
                for (k, c) in chunks.into_iter().enumerate() {
                    if err_at == Some(k) {
                        let _ = tx.send(Err(std::io::Error::other("injected transport error")));
                        shuttle::future::yield_now().await;
                    }
                    // after the error the consumer may be gone: later chunks are offered all the same
                    let _ = tx.send(Ok(c));
                    shuttle::future::yield_now().await;
                }
                if err_at.is_some_and(|k| k >= nchunks) {
                    let _ = tx.send(Err(std::io::Error::other("injected transport error")));
                }
                drop(tx);
            }));
            for t in 0..tasks {
                let mine: Vec<usize> = (0..n).filter(|i| owner[*i] == t).collect();
                let recv = recv.clone();
                let log = StdArc::clone(&log);
                let mode = modes[t];
                handles.push(shuttle::future::spawn(async move {
                    if mode == 0 {
                        for i in mine {
                            let r = recv.recv::<Raw<N>, usize>(i).await;
                            log.lock().unwrap().got.push((i, r.map(|m| m.bytes().to_vec()).map_err(|e| e.to_string())));
                        }
                    } else if mode == 2 {
                        for i in mine {
                            use futures::FutureExt;
                            let mut f = std::pin::pin!(recv.recv::<Raw<N>, usize>(i));
                            let r = match (&mut f).now_or_never() {
                                Some(r) => r,
                                None => f.await,
                            };
                            log.lock().unwrap().got.push((i, r.map(|m| m.bytes().to_vec()).map_err(|e| e.to_string())));
                        }
                    } else {
                        let mut order = mine.clone();
                        Rng::sub(order_seed, t as u64).shuffle(&mut order);
                        if let (Some(mx), Some(mn)) = (order.iter().max(), order.iter().min()) {
                            if mx - mn > cap {
                                log.lock().unwrap().ahead_of_capacity += 1;
                            }
                        }
                        join_all(order.into_iter().map(|i| {
                            let recv = &recv;
                            let log = &log;
                            async move {
                                let r = recv.recv::<Raw<N>, usize>(i).await;
                                log.lock().unwrap().got.push((i, r.map(|m| m.bytes().to_vec()).map_err(|e| e.to_string())));
                            }
                        }))
                        .await;
                    }
                }));
            }
            if ask_eos {
                let recv = recv.clone();
                let log = StdArc::clone(&log);
                handles.push(shuttle::future::spawn(async move {
                    let r = recv.recv::<Raw<N>, usize>(n).await;
                    log.lock().unwrap().eos = Some(r.map(|m| m.bytes().to_vec()).map_err(|e| e.to_string()));
                }));
            }
            for h in handles {
                h.await.unwrap();
            }
        });
    });

    let l = log.lock().unwrap();
    let nontrivial = outcome.decisions > 0 && n > 1;
    for (i, r) in &l.got {
        let arrived = (*i + 1) * w <= delivered;
        match r {
            Ok(b) if arrived && !bad.contains(i) && b[..] == payload(9, *i as u64, w)[..] => {}
            Ok(b) if !arrived => {
                return RunRes::violation("ur_message_after_transport_error",
                    format!("recv({i}) returned {b:02x?} although only {delivered} bytes arrived before the transport error (record {i} ends at byte {})", (*i + 1) * w), shape, Some(outcome));
            }
            Ok(b) => {
                return RunRes::violation("ur_wrong_message",
                    format!("recv({i}) returned {b:02x?}, expected {}", if bad.contains(i) { "a deserialization error".to_string() } else { format!("{:02x?}", payload(9, *i as u64, w)) }), shape, Some(outcome));
            }
            Err(_) if !arrived || bad.contains(i) => {}
            Err(e) => {
                return RunRes::violation("ur_spurious_error", format!("recv({i}) of {n} failed: {e}"), shape, Some(outcome));
            }
        }
    }
    if let Some(Ok(b)) = &l.eos {
        return RunRes::violation("ur_read_past_end", format!("recv({n}) past the end returned {b:02x?}"), shape, Some(outcome));
    }
    match outcome.class {
        "finished" => {
            let mut seen: Vec<usize> = l.got.iter().map(|x| x.0).collect();
            seen.sort_unstable();
            if seen != (0..n).collect::<Vec<_>>() || (ask_eos && l.eos.is_none() && err_at.is_none()) {
                return RunRes::violation("ur_lost_request", format!("finished with {} of {n} receives resolved", seen.len()), shape, Some(outcome));
            }
        }
        "deadlock" if err_at.is_some() && {
            // a stream that ends early fails the request that was next in line and leaves later requests pending (nothing more
            // can ever arrive for them); the statement makes no promise for records that never arrived
            let first_missing = delivered / w;
            let resolved: Vec<usize> = l.got.iter().map(|x| x.0).collect();
            (0..n).filter(|i| !resolved.contains(i)).all(|i| i >= first_missing)
        } => {
            let mut res = RunRes::pass(shape, nontrivial, Some(outcome));
            res.probe("requests_pending_after_early_end_of_stream", 1);
            res.fault("F3_transport_error_mid_stream", 1);
            res.fault("F7_undecodable_record", bad.len() as u64);
            return res;
        }
        "deadlock" | "stepcap" => {
            return RunRes::violation("ur_no_progress",
                format!("{}: {} of {n} receives resolved: {}", outcome.class, l.got.len(), outcome.panic_msg.clone().unwrap_or_default()),
                shape, Some(outcome));
        }
        _ => {
            return RunRes::violation("ur_panic", format!("unexpected panic: {}", outcome.panic_msg.clone().unwrap_or_default()), shape, Some(outcome));
        }
    }
    let mut res = RunRes::pass(shape, nontrivial, Some(outcome));
    res.probe("requests_ahead_of_capacity", l.ahead_of_capacity);
    res.probe("empty_chunks", cuts.iter().filter(|c| **c == 0).count() as u64);
    res.fault("F4_fragmentation", 1);
    res.fault("F7_undecodable_record", bad.len() as u64);
    res.fault("F3_transport_error_mid_stream", u64::from(err_at.is_some()));
    res
}

// ------------------------------------------------------------------------------------------------
// CircularBuf against a reference queue (sequential core the concurrent wrapper relies on)
// ------------------------------------------------------------------------------------------------

pub struct RingScenario;

impl Scenario for RingScenario {
    fn name(&self) -> &'static str {
        "c14_ring"
    }

    fn generate(&self, seed: u64, tier: Tier) -> Value {
        let mut r = Rng::sub(seed, 14_03);
        let w = r.range(1, 8);
        let cap_units = r.range(1, (64 / w).max(1).min(12));
        let read_units = r.range(1, cap_units);
        let depth = if tier == Tier::Quick { 60 } else { 200 };
        json!({"w": w, "cap_units": cap_units, "read_units": read_units, "depth": depth, "ops_seed": r.next_u64() >> 12})
    }

    fn exec(&self, p: &Value, _explicit: Option<Vec<u32>>) -> RunRes {
        let w = pu(p, "w");
        let cap = pu(p, "cap_units") * w;
        let read = pu(p, "read_units") * w;
        let depth = pu(p, "depth");
        if w == 0 || cap == 0 || read == 0 || read > cap {
            return RunRes::invalid("ring: sizes");
        }
        let mut r = Rng::sub(pu64(p, "ops_seed"), 0);
        let shape = format!("ring w{w} c{cap} r{read}");
        let mut buf = CircularBuf::new(cap, w, read);
        let mut model: VecDeque<u8> = VecDeque::new();
        let mut closed = false;
        let mut counter = 0u64;
        let mut wraps = 0u64;
        let mut written = 0usize;
        for step in 0..depth {
            // cross-invariants after every step
            let m_can_write = !closed && cap - model.len() >= w;
            let m_can_read = (closed && !model.is_empty()) || model.len() >= read;
            if buf.len() != model.len() || buf.can_write() != m_can_write || buf.can_read() != m_can_read || buf.is_closed() != closed {
                return RunRes::violation("ring_state",
                    format!("step {step}: len {} vs model {}, can_write {} vs {}, can_read {} vs {}", buf.len(), model.len(), buf.can_write(), m_can_write, buf.can_read(), m_can_read),
                    shape, None);
            }
            match r.below(8) {
                0..=3 if m_can_write => {
                    let data = payload(3, counter, w);
                    counter += 1;
                    buf.next().write(data.as_slice());
                    model.extend(data.iter());
                    written += w;
                    if written / cap > (written - w) / cap {
                        wraps += 1;
                    }
                }
                4..=6 => {
                    let got = buf.take();
                    let want: Vec<u8> = if m_can_read {
                        let k = read.min(model.len());
                        model.drain(..k).collect()
                    } else {
                        Vec::new()
                    };
                    if got != want {
                        return RunRes::violation("ring_take",
                            format!("step {step}: take() returned {} bytes {:02x?}, model {} bytes {:02x?}", got.len(), &got[..got.len().min(8)], want.len(), &want[..want.len().min(8)]),
                            shape, None);
                    }
                }
                7 if !closed && r.chance(1, 4) => {
                    buf.close();
                    closed = true;
                }
                _ => {}
            }
        }
        let mut res = RunRes::pass(shape, counter > 1, None);
        res.probe("ring_wraps", wraps);
        res.probe("ring_closed", u64::from(closed));
        res
    }
}
