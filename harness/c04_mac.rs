// C04 — MAC-checked arithmetic and openings: honest executions validate and open the right value; an
// additive/bit deviation of one helper in any message of upgrade / multiply / propagate-u-w /
// reveal-r / check-zero / opening makes validation or the opening fail on an honest helper.
//
// System: ctx.validator::<F>() (MAC-based malicious security) over Fp31 / Fp32BitPrime / Fp25519 on
// the three helpers of a TestWorld: upgrade -> multiply -> validate_record -> reveal, and the real
// eval_dy_prf (pseudonym function).

use std::{
    collections::BTreeMap,
    iter::{repeat, zip},
    sync::{
        Arc as StdArc, Mutex as StdMutex,
        atomic::{AtomicBool, Ordering as AO},
    },
};

use generic_array::GenericArray;
use rand::{SeedableRng, rngs::StdRng};
use serde_json::{Value, json};

use crate::{
    error::Error,
    ff::{Field, Fp31, Fp32BitPrime, Serializable, U128Conversions, curve_points::RP25519, ec_prime_field::Fp25519},
    protocol::{
        RecordId,
        basics::{SecureMul, reveal},
        context::{Context, UpgradableContext, UpgradedContext, Validator, upgrade::Upgradable},
        ipa_prf::prf_eval::eval_dy_prf,
    },
    secret_sharing::{
        IntoShares, SharedValue,
        replicated::{malicious::ExtendableField, semi_honest::AdditiveShare as Replicated},
    },
    seq_join::SeqJoin,
    test_fixture::{Runner, TestWorld},
    verif::{
        c05_shuffle::Shared3,
        faults::{self, *},
        sim::*,
        world::*,
    },
};

pub fn scenarios() -> Vec<&'static dyn Scenario> {
    vec![&MacScenario { tampered: false }, &MacScenario { tampered: true }]
}

pub struct MacScenario {
    pub tampered: bool,
}

fn ser<T: Serializable>(t: &T) -> Vec<u8> {
    let mut b = GenericArray::<u8, T::Size>::default();
    t.serialize(&mut b);
    b.to_vec()
}

impl Scenario for MacScenario {
    fn name(&self) -> &'static str {
        if self.tampered { "c04_tamper" } else { "c04_mac" }
    }

    fn generate(&self, seed: u64, tier: Tier) -> Value {
        let mut r = Rng::sub(seed, if self.tampered { 4_02 } else { 4_01 });
        let field = r.pick(&["fp31", "fp32", "fp25519", "prf", "vec16"]);
        let records = r.range(1, if tier == Tier::Quick { 16 } else { 24 });
        let mut knobs = draw_knobs(&mut r);
        // active work = records per MAC batch: small values give several batches incl. a partial last one
        knobs["active"] = json!(r.pick(&[2usize, 4, 8, 16]));
        let est = 1500 + records as u64 * 400;
        let mut p = json!({"field": field, "records": records, "input_seed": r.next_u64() >> 12, "knobs": knobs});
        // "two_phase": all records are upgraded and multiplied first, then validate_record is called for the records in a
        // seeded order (so MAC batches become ready out of order), then everything is opened
        p["drive"] = json!(if !self.tampered && ["fp31", "fp32", "fp25519"].contains(&field) && r.chance(1, 2) { "two_phase" } else { "pipeline" });
        p["order_seed"] = json!(r.next_u64() >> 12);
        // local arithmetic on the MAC-protected shares before the multiplication (0 = none; else the operation rotates per record)
        p["lin"] = json!(if ["fp31", "fp32", "fp25519"].contains(&field) && r.chance(1, 2) { r.range(1, 8) } else { 0 });
        if self.tampered {
            p["corrupt"] = json!(r.below(3));
            p["site_seed"] = json!(r.next_u64() >> 12);
            // "consistent": the corrupt helper adds the same error to a product share it sends AND to the copy of
            // that share it contributes to the opening, so that the two copies agree and only the MAC can catch it
            p["attack"] = json!(if field == "vec16" { r.pick(&["lane_cancel", "lane_cancel", "consistent", "single"]) } else if field != "prf" { r.pick(&["consistent", "consistent", "single", "single", "rush", "known_r"]) } else { "single" });
            p["lanes"] = json!([r.below(16), r.below(16)]);
            p["slow_corrupt"] = json!(r.chance(3, 4));
        }
        p["sched"] = SchedSpec::draw(&mut r, est, 3_000_000);
        p
    }

    fn exec(&self, p: &Value, explicit: Option<Vec<u32>>) -> RunRes {
        match ps(p, "field") {
            "fp31" => exec_f::<Fp31>(p, explicit, self.tampered, 1),
            "fp32" => exec_f::<Fp32BitPrime>(p, explicit, self.tampered, 4),
            "fp25519" => exec_f::<Fp25519>(p, explicit, self.tampered, 32),
            "prf" => exec_prf(p, explicit, self.tampered),
            "vec16" => exec_vec16(p, explicit, self.tampered),
            _ => RunRes::invalid("mac: field"),
        }
    }
}

/// per helper: opened values (serialised) per record, or the error
type HelperRes = Result<Vec<Vec<u8>>, String>;

struct OneRun {
    outcome: SimOutcome,
    res: BTreeMap<usize, HelperRes>,
    inv: BTreeMap<ChanKey, ChanStat>,
    fired: Vec<Value>,
}

fn valid(p: &Value, tampered: bool) -> bool {
    let k = &p["knobs"];
    pu(p, "records") > 0 && pu(p, "records") <= 64 && pu(k, "active").is_power_of_two() && pu(k, "active") >= 2 && pu(k, "read_size") > 0
        && (!tampered || pu(p, "corrupt") <= 2)
}

trait MacField: ExtendableField + Serializable + Send + Sync + 'static {
    fn draw(r: &mut StdRng) -> Self;
}
impl MacField for Fp31 {
    fn draw(r: &mut StdRng) -> Self {
        use rand::Rng;
        r.r#gen()
    }
}
impl MacField for Fp32BitPrime {
    fn draw(r: &mut StdRng) -> Self {
        use rand::Rng;
        r.r#gen()
    }
}
impl MacField for Fp25519 {
    fn draw(r: &mut StdRng) -> Self {
        use rand::Rng;
        r.r#gen()
    }
}

type Mal<F> = crate::secret_sharing::replicated::malicious::AdditiveShare<F>;

/// Local (communication-free) arithmetic on MAC-protected shares before the multiplication: a' = lin(a, b).
/// 0: a, 1: a + b, 2: a - b, 3: a += b, 4: a -= b, 5: -a, 6: a * 3, 7: a -= b (by value), 8: (a - b) by value
fn lin<F: MacField>(op: usize, a: Mal<F>, b: &Mal<F>) -> Mal<F> {
    match op {
        1 => a + b,
        2 => a - b,
        3 => { let mut t = a; t += b; t }
        4 => { let mut t = a; t -= b; t }
        5 => -a,
        6 => a * (F::ONE + F::ONE + F::ONE),
        7 => { let mut t = a; t -= b.clone(); t }
        8 => a - b.clone(),
        _ => a,
    }
}

fn lin_plain<F: MacField>(op: usize, x: F, y: F) -> F {
    match op {
        1 | 3 => x + y,
        2 | 4 | 7 | 8 => x - y,
        5 => -x,
        6 => x * (F::ONE + F::ONE + F::ONE),
        _ => x,
    }
}

fn run_f<F>(p: &Value, spec: &SchedSpec, xs: &[F], ys: &[F], sites: Vec<Site>) -> OneRun
where
    F: MacField,
    F: IntoShares<Replicated<F>>,
    rand::distributions::Standard: rand::distributions::Distribution<F>,
    for<'a> (Replicated<F>, Replicated<F>): Upgradable<crate::protocol::context::UpgradedMaliciousContext<'a, F>, Output = (crate::secret_sharing::replicated::malicious::AdditiveShare<F>, crate::secret_sharing::replicated::malicious::AdditiveShare<F>)>,
    for<'a> crate::secret_sharing::replicated::malicious::AdditiveShare<F>: SecureMul<crate::protocol::context::UpgradedMaliciousContext<'a, F>> + crate::protocol::basics::Reveal<crate::protocol::context::UpgradedMaliciousContext<'a, F>, Output = <F as crate::secret_sharing::Vectorizable<1>>::Array>,
{
    let records = pu(p, "records");
    let knobs = &p["knobs"];
    let (active, read_size, world_seed) = (pu(knobs, "active"), pu(knobs, "read_size"), pu64(knobs, "world_seed"));
    let input_seed = pu64(p, "input_seed");
    let two_phase = p.get("drive").and_then(Value::as_str) == Some("two_phase");
    let lin_op = p.get("lin").and_then(Value::as_u64).unwrap_or(0) as usize;
    let order: Vec<usize> = Rng::sub(p.get("order_seed").and_then(Value::as_u64).unwrap_or(0), 7).perm(records);
    let (tamper, interceptor) = faults::tamper_many(sites);
    let log: StdArc<StdMutex<BTreeMap<usize, HelperRes>>> = StdArc::new(StdMutex::new(BTreeMap::new()));
    let log2 = StdArc::clone(&log);
    let (xs, ys) = (xs.to_vec(), ys.to_vec());
    let outcome = sim_async(spec, StdArc::new(AtomicBool::new(false)), move || {
        let (log, xs, ys, interceptor, order) = (StdArc::clone(&log2), xs.clone(), ys.clone(), interceptor.clone(), order.clone());
        async move {
            let world = TestWorld::new_with(&world_config(world_seed, active, read_size, Some(interceptor)));
            let mut rng = StdRng::seed_from_u64(input_seed ^ 0x5a5a);
            let order = &order;
            let mut inputs: [Vec<(Replicated<F>, Replicated<F>)>; 3] = [Vec::new(), Vec::new(), Vec::new()];
            for (x, y) in zip(xs, ys) {
                let [x0, x1, x2] = x.share_with(&mut rng);
                let [y0, y1, y2] = y.share_with(&mut rng);
                inputs[0].push((x0, y0));
                inputs[1].push((x1, y1));
                inputs[2].push((x2, y2));
            }
            let log = &log;
            world
                .malicious(Shared3(inputs), |ctx, shares: Vec<(Replicated<F>, Replicated<F>)>| async move {
                    let h = role_idx(ctx.role());
                    let ctx = ctx.set_total_records(records);
                    let v = ctx.validator::<F>();
                    let m_ctx = v.context();
                    let r: Result<Vec<Vec<u8>>, Error> = if two_phase {
                        async {
                            let zs = m_ctx
                                .try_join(zip(repeat(m_ctx.clone()).enumerate(), shares.into_iter()).map(|((i, c), (a, b))| async move {
                                    let rid = RecordId::from(i);
                                    let (a, b) = (a, b).upgrade(c.narrow("upgrade"), rid).await?;
                                    let a = lin::<F>(if lin_op == 0 { 0 } else { 1 + (lin_op + i) % 8 }, a, &b);
                                    a.multiply(&b, c.narrow("mult"), rid).await
                                }))
                                .await?;
                            // every record asks for validation exactly once, in a seeded order, all requests pending together
                            futures::future::try_join_all(order.iter().map(|&i| {
                                let c = m_ctx.clone();
                                async move { c.validate_record(RecordId::from(i)).await }
                            }))
                            .await?;
                            m_ctx
                                .try_join(zip(repeat(m_ctx.clone()).enumerate(), zs.into_iter()).map(|((i, c), z)| async move {
                                    let opened = reveal(c.narrow("open"), RecordId::from(i), &z).await?;
                                    Ok::<_, Error>(ser(&opened.into_iter().next().unwrap()))
                                }))
                                .await
                        }
                        .await
                    } else {
                        m_ctx
                            .try_join(zip(repeat(m_ctx.clone()).enumerate(), shares.into_iter()).map(|((i, c), (a, b))| async move {
                                let rid = RecordId::from(i);
                                let (a, b) = (a, b).upgrade(c.narrow("upgrade"), rid).await?;
                                let a = lin::<F>(if lin_op == 0 { 0 } else { 1 + (lin_op + i) % 8 }, a, &b);
                                let z = a.multiply(&b, c.narrow("mult"), rid).await?;
                                c.validate_record(rid).await?;
                                let opened = reveal(c.narrow("open"), rid, &z).await?;
                                Ok::<_, Error>(ser(&opened.into_iter().next().unwrap()))
                            }))
                            .await
                    };
                    log.lock().unwrap().insert(h, r.map_err(|e| e.to_string()));
                })
                .await;
        }
    });
    let t = tamper.log.lock().unwrap();
    OneRun { outcome, res: log.lock().unwrap().clone(), inv: t.chans.clone(), fired: t.fired.clone() }
}

// ------------------------------------------------------------------------------------------------
// F1a for the MAC check: a "rushing" corrupt helper.  It alters a product share (and the copy it
// contributes to the opening), is late in the batch's check-zero step, and - once its right-hand
// neighbour, which never waits for it, has opened its shares of r*T - replaces its own
// multiplication message (and the copy it opens) by the value that makes r*T open to zero.
// ------------------------------------------------------------------------------------------------

struct RushSt<E> {
    pos: BTreeMap<(usize, usize, String), usize>,
    z1: Option<E>,
    z2: Option<E>,
    repl: Option<E>,
    fired: Vec<Value>,
    too_early: u64,
    /// every share of a batch's r seen on the wire: (src, dst, batch) -> value
    r_seen: BTreeMap<(usize, usize, usize), E>,
    /// the r the "known r" attack decided to use for the target record
    used_r: Option<(usize, E)>,
    /// batches whose u/w message of the corrupt helper has left its machine
    u_sent: std::collections::BTreeSet<usize>,
    /// batches whose missing share of r reached the corrupt helper before its own u/w message had left
    r_before_u: std::collections::BTreeSet<usize>,
}

/// mode 0: rush the check-zero step of `batch`; mode 1: only record the shares of r that are opened (honest run: this
/// is how the harness learns the corrupt helper's OWN shares); mode 2: "known r" - when the product messages of record
/// `target` go out and the r of its batch (or, failing that, of an earlier batch) is already known to the corrupt
/// helper, add 1 to the product share, r to the duplicate product share and 1 to the copy opened later
struct RushCz<E> {
    c: usize,
    w: usize,
    batch: usize,
    mode: u8,
    target: usize,
    wf: usize,
    own_r: BTreeMap<(usize, usize), E>,
    st: StdMutex<RushSt<E>>,
}

impl<E: Field + Serializable> RushCz<E> {
    fn peek(&self, ctx: &crate::helpers::in_memory_config::InspectContext, data: &mut Vec<u8>) {
        let crate::helpers::in_memory_config::InspectContext::MpcMessage { source, dest, gate, .. } = ctx else { return };
        let hid = |h: crate::helpers::HelperIdentity| if h == crate::helpers::HelperIdentity::ONE { 0 } else if h == crate::helpers::HelperIdentity::TWO { 1 } else { 2 };
        let (src, dst, gate) = (hid(*source), hid(*dest), gate.as_ref().to_string());
        let mut st = self.st.lock().unwrap();
        let start = { let e = st.pos.entry((src, dst, gate.clone())).or_insert(0); let s0 = *e; *e += data.len(); s0 };
        // ---- the corrupt helper's own u/w messages (two values per batch) ----
        if src == self.c && gate.contains("/validate/propagate") {
            let mut off = (self.w - start % self.w) % self.w;
            while off + self.w <= data.len() {
                st.u_sent.insert((start + off) / (2 * self.w));
                off += self.w;
            }
            return;
        }
        // ---- shares of r opened by anybody (record = batch index) ----
        if gate.ends_with("/validate/reveal_r") {
            let mut off = (self.w - start % self.w) % self.w;
            while off + self.w <= data.len() {
                if let Ok(v) = E::deserialize(GenericArray::from_slice(&data[off..off + self.w])) {
                    let b = (start + off) / self.w;
                    if dst == self.c && !st.u_sent.contains(&b) {
                        st.r_before_u.insert(b);
                    }
                    st.r_seen.insert((src, dst, b), v);
                }
                off += self.w;
            }
            return;
        }
        if self.mode == 1 {
            return;
        }
        if self.mode == 2 {
            let (c, right, left) = (self.c, (self.c + 1) % 3, (self.c + 2) % 3);
            if src != c {
                return;
            }
            let is_x = gate.ends_with("/mult") && dst == left;
            let is_rx = gate.ends_with("/mult/duplicate_multiply") && dst == left;
            let is_open = gate.ends_with("/open") && dst == right;
            let width = if is_rx { self.w } else { self.wf };
            if !(is_x || is_rx || is_open) {
                return;
            }
            let lo = self.target * width;
            if !(start <= lo && lo + width <= start + data.len()) {
                return;
            }
            let off = lo - start;
            if st.used_r.is_none() && (is_x || is_rx) {
                // r of batch b is known to the corrupt helper once one of its peers has opened the share it lacks
                let known = |b: usize| -> Option<E> {
                    let missing = st.r_seen.get(&(right, c, b)).or_else(|| st.r_seen.get(&(left, c, b)))?;
                    Some(*self.own_r.get(&(right, b))? + *self.own_r.get(&(left, b))? + *missing)
                };
                let mut pick = None;
                for b in (0..=self.batch).rev() {
                    if let Some(r) = known(b) {
                        pick = Some((b, r));
                        break;
                    }
                }
                match pick {
                    Some(p) => st.used_r = Some(p),
                    None => {
                        st.too_early += 1;
                        return;
                    }
                }
            }
            let Some((b_used, r)) = st.used_r else { return };
            let before_uw = st.r_before_u.contains(&b_used);
            if is_rx {
                if let Ok(v) = E::deserialize(GenericArray::from_slice(&data[off..off + width])) {
                    let mut buf = GenericArray::<u8, E::Size>::default();
                    (v + r).serialize(&mut buf);
                    data[off..off + width].copy_from_slice(&buf);
                    st.fired.push(json!({"gate": gate, "what": "r added to the duplicate product share", "r_of_batch": b_used, "record_batch": self.batch, "r_before_own_uw": before_uw}));
                }
            } else {
                faults::apply_pattern(&format!("addle:{width}"), off, data);
                st.fired.push(json!({"gate": gate, "what": if is_x { "1 added to the product share" } else { "1 added to the copy opened to the other honest helper" }, "r_of_batch": b_used, "record_batch": self.batch, "r_before_own_uw": before_uw}));
            }
            return;
        }
        let (is_m, is_r) = (gate.ends_with("/check_zero/multiply_with_r"), gate.ends_with("/check_zero/reveal_r"));
        if !(is_m || is_r) {
            return;
        }
        // the batch's message occupies [batch*w, batch*w + w) of the stream; only handled when it arrives whole
        let lo = self.batch * self.w;
        if !(start <= lo && lo + self.w <= start + data.len()) {
            return;
        }
        let off = lo - start;
        let (c, right, left) = (self.c, (self.c + 1) % 3, (self.c + 2) % 3);
        let read = |d: &[u8]| E::deserialize(GenericArray::from_slice(&d[off..off + self.w])).ok();
        if src == right && dst == c {
            // what the right-hand neighbour sends us: its product share (our right share), then - in the opening - its right share
            if is_m { st.z1 = read(data); } else { st.z2 = read(data); }
        } else if src == c && dst == left && is_m {
            match (st.z1, st.z2) {
                (Some(a), Some(b)) => {
                    let v = -(a + b);
                    let mut buf = GenericArray::<u8, E::Size>::default();
                    v.serialize(&mut buf);
                    data[off..off + self.w].copy_from_slice(&buf);
                    st.repl = Some(v);
                    st.fired.push(json!({"gate": gate, "what": "own product share of r*T replaced so that r*T opens to zero"}));
                }
                _ => st.too_early += 1,
            }
        } else if src == c && dst == right && is_r {
            if let Some(v) = st.repl {
                let mut buf = GenericArray::<u8, E::Size>::default();
                v.serialize(&mut buf);
                data[off..off + self.w].copy_from_slice(&buf);
                st.fired.push(json!({"gate": gate, "what": "same value in the copy opened to the right-hand neighbour"}));
            }
        }
    }
}

async fn pipeline<'a, F>(ctx: crate::protocol::context::MaliciousContext<'a>, shares: Vec<(Replicated<F>, Replicated<F>)>, records: usize, ignore_own_verdict: bool, lin_op: usize) -> Result<Vec<Vec<u8>>, Error>
where
    F: MacField,
    (Replicated<F>, Replicated<F>): Upgradable<crate::protocol::context::UpgradedMaliciousContext<'a, F>, Output = (crate::secret_sharing::replicated::malicious::AdditiveShare<F>, crate::secret_sharing::replicated::malicious::AdditiveShare<F>)>,
    crate::secret_sharing::replicated::malicious::AdditiveShare<F>: SecureMul<crate::protocol::context::UpgradedMaliciousContext<'a, F>> + crate::protocol::basics::Reveal<crate::protocol::context::UpgradedMaliciousContext<'a, F>, Output = <F as crate::secret_sharing::Vectorizable<1>>::Array>,
{
    let ctx = ctx.set_total_records(records);
    let v = ctx.validator::<F>();
    let m_ctx = v.context();
    m_ctx
        .try_join(zip(repeat(m_ctx.clone()).enumerate(), shares.into_iter()).map(|((i, c), (a, b))| async move {
            let rid = RecordId::from(i);
            let (a, b) = (a, b).upgrade(c.narrow("upgrade"), rid).await?;
            let a = lin::<F>(if lin_op == 0 { 0 } else { 1 + (lin_op + i) % 8 }, a, &b);
            let z = a.multiply(&b, c.narrow("mult"), rid).await?;
            // a corrupt helper does not stop because its own view of the check disagrees: it goes on to the opening
            let verdict = c.validate_record(rid).await;
            if !ignore_own_verdict {
                verdict?;
            }
            let opened = reveal(c.narrow("open"), rid, &z).await?;
            Ok::<_, Error>(ser(&opened.into_iter().next().unwrap()))
        }))
        .await
}

/// Pipeline workload with every helper on a task of its own (so that the scheduler can make one of them late), the
/// given rewriting sites and the rushing check-zero behaviour of helper `corrupt` in batch `batch`.
#[allow(clippy::type_complexity)]
fn run_rush<F>(p: &Value, spec: &SchedSpec, xs: &[F], ys: &[F], sites: Vec<Site>, corrupt: usize, batch: usize, mode: u8, target: usize,
    own_r: BTreeMap<(usize, usize), F::ExtendedField>) -> (OneRun, u64, BTreeMap<(usize, usize, usize), F::ExtendedField>)
where
    F: MacField,
    F: IntoShares<Replicated<F>>,
    for<'a> (Replicated<F>, Replicated<F>): Upgradable<crate::protocol::context::UpgradedMaliciousContext<'a, F>, Output = (crate::secret_sharing::replicated::malicious::AdditiveShare<F>, crate::secret_sharing::replicated::malicious::AdditiveShare<F>)>,
    for<'a> crate::secret_sharing::replicated::malicious::AdditiveShare<F>: SecureMul<crate::protocol::context::UpgradedMaliciousContext<'a, F>> + crate::protocol::basics::Reveal<crate::protocol::context::UpgradedMaliciousContext<'a, F>, Output = <F as crate::secret_sharing::Vectorizable<1>>::Array>,
{
    use typenum::Unsigned;
    let records = pu(p, "records");
    let knobs = &p["knobs"];
    let (active, read_size, world_seed) = (pu(knobs, "active"), pu(knobs, "read_size"), pu64(knobs, "world_seed"));
    let input_seed = pu64(p, "input_seed");
    let (tamper, _) = faults::tamper_many(sites);
    let rush = StdArc::new(RushCz::<F::ExtendedField> {
        c: corrupt, w: <<F::ExtendedField as Serializable>::Size as Unsigned>::USIZE, batch, mode, target,
        wf: <<F as Serializable>::Size as Unsigned>::USIZE, own_r,
        st: StdMutex::new(RushSt { pos: BTreeMap::new(), z1: None, z2: None, repl: None, fired: Vec::new(), too_early: 0, r_seen: BTreeMap::new(), used_r: None, u_sent: Default::default(), r_before_u: Default::default() }),
    });
    let (t2, r2) = (StdArc::clone(&tamper), StdArc::clone(&rush));
    let interceptor: crate::helpers::in_memory_config::DynStreamInterceptor = crate::sync::Arc::new(move |ctx: &crate::helpers::in_memory_config::InspectContext, data: &mut Vec<u8>| {
        crate::helpers::in_memory_config::StreamInterceptor::peek(&*t2, ctx, data);
        r2.peek(ctx, data);
    });
    let log: StdArc<StdMutex<BTreeMap<usize, HelperRes>>> = StdArc::new(StdMutex::new(BTreeMap::new()));
    let log2 = StdArc::clone(&log);
    let (xs, ys) = (xs.to_vec(), ys.to_vec());
    let slow = p.get("slow_corrupt").and_then(Value::as_bool) != Some(false);
    let lin_op = p.get("lin").and_then(Value::as_u64).unwrap_or(0) as usize;
    let outcome = sim_async(spec, StdArc::new(AtomicBool::new(false)), move || {
        let (log, xs, ys, interceptor) = (StdArc::clone(&log2), xs.clone(), ys.clone(), interceptor.clone());
        async move {
            // bytes travel as soon as they are sent (hook H5): what reaches the corrupt helper's machine is visible to it before
            // its own code asks for it
            crate::verif::sim::EAGER_NET.store(true, AO::SeqCst);
            let keep = SharedWorld::new(TestWorld::new_with(&world_config(world_seed, active, read_size, Some(interceptor))));
            // SAFETY: `keep` outlives every use here and each helper task holds its own clone
            let world: &'static TestWorld = unsafe { keep.get() };
            let mut rng = StdRng::seed_from_u64(input_seed ^ 0x5a5a);
            let mut inputs: [Vec<(Replicated<F>, Replicated<F>)>; 3] = [Vec::new(), Vec::new(), Vec::new()];
            for (x, y) in zip(xs, ys) {
                let [x0, x1, x2] = x.share_with(&mut rng);
                let [y0, y1, y2] = y.share_with(&mut rng);
                inputs[0].push((x0, y0));
                inputs[1].push((x1, y1));
                inputs[2].push((x2, y2));
            }
            let mut handles = Vec::new();
            for (ctx, shares) in zip(world.malicious_contexts(), inputs) {
                let (log, keep_node) = (StdArc::clone(&log), keep.share());
                handles.push(shuttle::future::spawn(async move {
                    let _keep_node = keep_node;
                    let h = role_idx(ctx.role());
                    if h == corrupt && slow && mode != 1 {
                        // F5, targeted: the corrupt helper's task only moves when nobody else can
                        crate::verif::sim::mark_current_task_slow();
                    }
                    let r = pipeline::<F>(ctx, shares, records, h == corrupt && mode != 1, lin_op).await;
                    log.lock().unwrap().insert(h, r.map_err(|e| e.to_string()));
                }));
            }
            for h in handles {
                h.await.unwrap();
            }
            drop(keep);
        }
    });
    let t = tamper.log.lock().unwrap();
    let rs = rush.st.lock().unwrap();
    let mut fired = t.fired.clone();
    fired.extend(rs.fired.iter().cloned());
    (OneRun { outcome, res: log.lock().unwrap().clone(), inv: t.chans.clone(), fired }, rs.fired.len() as u64 * 1000 + rs.too_early, rs.r_seen.clone())
}

fn exec_f<F>(p: &Value, explicit: Option<Vec<u32>>, tampered: bool, width: usize) -> RunRes
where
    F: MacField,
    F: IntoShares<Replicated<F>>,
    rand::distributions::Standard: rand::distributions::Distribution<F>,
    for<'a> (Replicated<F>, Replicated<F>): Upgradable<crate::protocol::context::UpgradedMaliciousContext<'a, F>, Output = (crate::secret_sharing::replicated::malicious::AdditiveShare<F>, crate::secret_sharing::replicated::malicious::AdditiveShare<F>)>,
    for<'a> crate::secret_sharing::replicated::malicious::AdditiveShare<F>: SecureMul<crate::protocol::context::UpgradedMaliciousContext<'a, F>> + crate::protocol::basics::Reveal<crate::protocol::context::UpgradedMaliciousContext<'a, F>, Output = <F as crate::secret_sharing::Vectorizable<1>>::Array>,
{
    if !valid(p, tampered) {
        return RunRes::invalid("mac: plan");
    }
    let records = pu(p, "records");
    let field = ps(p, "field").to_string();
    let mut rng = StdRng::seed_from_u64(pu64(p, "input_seed"));
    let xs: Vec<F> = (0..records).map(|i| if i % 5 == 3 { F::ZERO } else if i % 7 == 2 { F::ONE } else { F::draw(&mut rng) }).collect();
    let ys: Vec<F> = (0..records).map(|i| if i % 6 == 4 { F::ZERO } else { F::draw(&mut rng) }).collect();
    // (local arithmetic before the multiplication: record i uses operation 1 + (lin + i) % 8 when lin > 0)
    let lin_op = p.get("lin").and_then(Value::as_u64).unwrap_or(0) as usize;
    let want: Vec<Vec<u8>> = zip(&xs, &ys).enumerate().map(|(i, (x, y))| ser(&(lin_plain::<F>(if lin_op == 0 { 0 } else { 1 + (lin_op + i) % 8 }, *x, *y) * *y))).collect();
    let spec = SchedSpec::from_json(&p["sched"], explicit);
    let shape = format!("mac {field} r{records} a{} t{} {}", pu(&p["knobs"], "active"), u8::from(tampered), p.get("drive").and_then(Value::as_str).unwrap_or("pipeline"));
    let honest = run_f::<F>(p, &spec, &xs, &ys, Vec::new());
    if let Some(v) = judge_honest(&honest, &want, &shape) {
        return v;
    }
    if !tampered {
        let mut res = RunRes::pass(shape, honest.outcome.decisions > 0, Some(honest.outcome));
        res.probe("mac_batches", records.div_ceil(pu(&p["knobs"], "active")) as u64);
        res.probe("partial_last_batch", u64::from(records % pu(&p["knobs"], "active") != 0));
        if p.get("drive").and_then(Value::as_str) == Some("two_phase") {
            // batches whose last validation request arrives before that of an earlier batch
            let (a, order) = (pu(&p["knobs"], "active"), Rng::sub(p.get("order_seed").and_then(Value::as_u64).unwrap_or(0), 7).perm(records));
            let nb = records.div_ceil(a);
            let ready_at: Vec<usize> = (0..nb).map(|b| order.iter().rposition(|i| i / a == b).unwrap()).collect();
            let ooo = (1..nb).filter(|b| (0..*b).any(|e| ready_at[e] > ready_at[*b])).count();
            res.probe("two_phase_runs", 1);
            res.probe("batches_ready_out_of_order", ooo as u64);
        }
        return res;
    }
    let corrupt = pu(p, "corrupt");
    let mut sr = Rng::sub(pu64(p, "site_seed"), 0);
    let addle = format!("addle:{width}");
    let rush = p.get("attack").and_then(Value::as_str) == Some("rush");
    let known_r = p.get("attack").and_then(Value::as_str) == Some("known_r");
    let consistent = rush || p.get("attack").and_then(Value::as_str) == Some("consistent");
    // the record whose product share is altered (rush: its batch is the one whose check-zero step the helper rushes)
    let target = Rng::sub(pu64(p, "site_seed"), 0).below(records);
    let sites: Vec<Site> = match p.get("site") {
        Some(s) if !s.is_null() && !rush => Site::list_from_json(s),
        _ if consistent => {
            // product share message of the corrupt helper, and its opening message to the helper that did not receive it
            let k = sr.below(records);
            let mult = honest.inv.keys().find(|c| c.kind == "mpc" && c.src == corrupt && c.gate.ends_with("/mult")).cloned();
            match mult {
                Some(m) => {
                    let third = 3 - corrupt - m.dst;
                    let open = honest.inv.keys().find(|c| c.kind == "mpc" && c.src == corrupt && c.dst == third && c.gate.ends_with("/open")).cloned();
                    match open {
                        Some(o) => vec![
                            Site { chan: m, chunk: 0, offset: 0, pattern: addle.clone(), stream_off: Some(k * width) },
                            Site { chan: o, chunk: 0, offset: 0, pattern: addle.clone(), stream_off: Some(k * width) },
                        ],
                        None => Vec::new(),
                    }
                }
                None => Vec::new(),
            }
        }
        _ => draw_site(&honest.inv, &|k: &ChanKey| k.sender_helper() == corrupt, &mut sr, &[addle.as_str(), addle.as_str(), "flip:0", "flip:2", "add1"]).into_iter().collect(),
    };
    if sites.is_empty() {
        return RunRes::inconclusive("no_site", "no channel of the corrupt helper".into(), shape, Some(honest.outcome));
    }
    if known_r {
        // first an honest run (helpers as tasks, eager network) that only records the shares of r the corrupt helper itself
        // opens; then the same seed with the attack
        let batch = target / pu(&p["knobs"], "active");
        let (_, _, seen) = run_rush::<F>(p, &spec, &xs, &ys, Vec::new(), corrupt, batch, 1, target, BTreeMap::new());
        let own: BTreeMap<(usize, usize), F::ExtendedField> = seen.iter().filter(|((s, _, _), _)| *s == corrupt).map(|((_, d, b), v)| ((*d, *b), *v)).collect();
        let (bad, stat, _) = run_rush::<F>(p, &spec, &xs, &ys, Vec::new(), corrupt, batch, 2, target, own);
        let (applied, too_early) = (stat / 1000, stat % 1000);
        if applied == 0 {
            let mut res = RunRes::pass(shape, true, Some(bad.outcome.clone()));
            res.probe("known_r_no_opportunity", 1);
            res.probe("known_r_messages_sent_before_any_r_was_known", too_early);
            return res;
        }
        let site = Site { chan: ChanKey { kind: "mpc", src: corrupt, dst: (corrupt + 2) % 3, shard: 0, gate: "adaptive:known_r".into() }, chunk: 0, offset: 0, pattern: "known_r".into(), stream_off: None };
        // (Fp31: acceptance with probability about 1/31 is legitimate and judged by the rate rule, as for blind tampering)
        let mut res = judge_tampered(&bad, &want, corrupt, &[site], 1, &field, honest.inv.len(), shape);
        let same_batch = bad.fired.iter().any(|f| f.get("r_of_batch") == f.get("record_batch"));
        // did the missing share of that r reach the corrupt helper before its own u/w message for the batch had left?  (With the
        // code as it is nobody opens r before it holds the u/w of its left-hand neighbour, so this is impossible; what remains
        // possible is a helper that sends u/w honestly and withholds its product shares until r has been opened to it.)
        let before_uw = bad.fired.iter().any(|f| f.get("r_before_own_uw") == Some(&json!(true)));
        res.fault("F1a_known_r_attack", 1);
        res.probe(if !same_batch { "known_r_of_earlier_batch" } else if before_uw { "known_r_of_same_batch_before_own_uw" } else { "known_r_of_same_batch_after_own_uw" }, 1);
        if res.verdict == Verdict::Violation {
            res.class = if !same_batch { "mac_r_of_earlier_batch_still_valid".into() } else if before_uw { "mac_r_known_before_products_sent".into() } else { "mac_r_opened_to_helper_withholding_products".into() };
            res.detail = format!("{} [adaptive: helper {} used the r {} to add e to a product share and r*e to its duplicate]", res.detail, corrupt + 1,
                if !same_batch { "opened for an earlier batch" } else if before_uw { "of the record's own batch, opened to it before it had sent its u/w message of that batch and the record's product shares" } else { "of the record's own batch: it sent its u/w message of the batch, its right-hand neighbour opened r in reply, and only then did it release the record's product shares" });
        }
        return res;
    }
    let need = sites.len();
    if rush {
        // helpers as separate tasks; the corrupt one additionally rushes the check-zero step of the target record's batch
        let batch = target / pu(&p["knobs"], "active");
        let (bad, rush_stat, _) = run_rush::<F>(p, &spec, &xs, &ys, sites.clone(), corrupt, batch, 0, target, BTreeMap::new());
        let mut res = judge_tampered(&bad, &want, corrupt, &sites, need, &field, honest.inv.len(), shape);
        let (replaced, too_early) = (rush_stat / 1000, rush_stat % 1000);
        // the Fp31 acceptance-rate rule is about blind tampering: runs of this attack are counted apart
        for k in ["fp31_tamper_delivered", "fp31_tamper_accepted_wrong"] {
            if let Some(v) = res.probes.remove(k) {
                res.probe(&format!("rush_{k}"), v);
            }
        }
        res.fault("F1a_rushing_check_zero", u64::from(replaced >= 2));
        res.probe(if replaced >= 2 { "rush_window_open" } else { "rush_no_opportunity" }, 1);
        res.probe("rush_messages_sent_before_peer_opened", too_early);
        if res.verdict == Verdict::Violation && replaced >= 2 {
            res.class = "mac_check_zero_defeated_by_late_helper".into();
            res.detail = format!("{} [rushing: helper {} altered a product share, was late in the check-zero step of batch {batch} and, after its right-hand neighbour had opened its shares of r*T without waiting for it, replaced its own share of r*T so that it opens to zero]", res.detail, corrupt + 1);
        }
        return res;
    }
    let bad = run_f::<F>(p, &spec, &xs, &ys, sites.clone());
    judge_tampered(&bad, &want, corrupt, &sites, need, &field, honest.inv.len(), shape)
}

fn judge_honest(run: &OneRun, want: &[Vec<u8>], shape: &str) -> Option<RunRes> {
    let o = run.outcome.clone();
    match o.class {
        "finished" => {}
        "deadlock" | "stepcap" => return Some(RunRes::violation("mac_no_progress", format!("{}: {}", o.class, truncate(&o.panic_msg.clone().unwrap_or_default(), 300)), shape.into(), Some(o))),
        _ => return Some(RunRes::violation("mac_panic", format!("panic in a fault-free run: {}", o.panic_msg.clone().unwrap_or_default()), shape.into(), Some(o))),
    }
    for h in 0..3 {
        match run.res.get(&h) {
            Some(Ok(v)) if v[..] == want[..] => {}
            Some(Ok(v)) => {
                let k = zip(v, want).position(|(a, b)| a != b).unwrap_or(v.len().min(want.len()));
                return Some(RunRes::violation("mac_wrong_result", format!("helper {} record {k}: opened {:02x?}, expected {:02x?}", h + 1, v.get(k), want.get(k)), shape.into(), Some(o)));
            }
            Some(Err(e)) => return Some(RunRes::violation("mac_spurious_error", format!("honest execution failed on helper {}: {e}", h + 1), shape.into(), Some(o))),
            None => return Some(RunRes::violation("mac_no_result", format!("helper {} produced nothing", h + 1), shape.into(), Some(o))),
        }
    }
    None
}

fn judge_tampered(bad: &OneRun, want: &[Vec<u8>], corrupt: usize, sites: &[Site], need: usize, field: &str, inv_len: usize, shape: String) -> RunRes {
    let o = bad.outcome.clone();
    let site = &sites[0];
    let sites_json: Vec<Value> = sites.iter().map(Site::to_json).collect();
    if bad.fired.is_empty() {
        return RunRes::inconclusive("tamper_not_delivered", format!("sites {} never reached", json!(sites_json)), shape, Some(o));
    }
    let (a, b) = ((corrupt + 1) % 3, (corrupt + 2) % 3);
    let mut res = match (bad.res.get(&a), bad.res.get(&b)) {
        (Some(Ok(ra)), Some(Ok(rb))) => {
            if ra[..] == want[..] && rb[..] == want[..] {
                let mut r = RunRes::pass(shape, true, Some(o.clone()));
                r.probe("tamper_accepted_result_intact", 1);
                r
            } else if field == "fp31" {
                // allowed with probability about 1/|F|: judged statistically over the batch by the driver
                let mut r = RunRes::pass(shape, true, Some(o.clone()));
                r.probe("fp31_tamper_accepted_wrong", 1);
                r
            } else {
                RunRes::violation("mac_tamper_accepted_result_changed",
                    format!("helper {} altered {}; both honest helpers validated and opened values, which differ from x*y", corrupt + 1, json!(sites_json)), shape, Some(o.clone()))
            }
        }
        _ => {
            let mut r = RunRes::pass(shape, true, Some(o.clone()));
            r.probe("tamper_rejected_or_aborted", 1);
            r
        }
    };
    res.fault("F1_tamper_delivered", 1);
    if need > 1 {
        res.fault("F1_consistent_two_site_attack", u64::from(bad.fired.len() >= need));
    }
    if field == "fp31" {
        res.probe("fp31_tamper_delivered", 1);
    }
    res.probe(&format!("outcome_{}", o.class), 1);
    let step: String = site.chan.gate.split('/').skip(2).map(|s| s.trim_end_matches(char::is_numeric)).collect::<Vec<_>>().join("/");
    res.probe(&format!("site_{step}"), 1);
    res.extra = json!({"site": sites_json, "fired": bad.fired, "inventory_channels": inv_len});
    res
}

// ------------------------------------------------------------------------------------------------
// the pseudonym function g^(1/(k+x)) through the real eval_dy_prf
// ------------------------------------------------------------------------------------------------

fn run_prf(p: &Value, spec: &SchedSpec, xs: &[Fp25519], key: Fp25519, sites: Vec<Site>) -> OneRun {
    let records = pu(p, "records");
    let knobs = &p["knobs"];
    let (active, read_size, world_seed) = (pu(knobs, "active"), pu(knobs, "read_size"), pu64(knobs, "world_seed"));
    let input_seed = pu64(p, "input_seed");
    let (tamper, interceptor) = faults::tamper_many(sites);
    let log: StdArc<StdMutex<BTreeMap<usize, HelperRes>>> = StdArc::new(StdMutex::new(BTreeMap::new()));
    let log2 = StdArc::clone(&log);
    let xs = xs.to_vec();
    let outcome = sim_async(spec, StdArc::new(AtomicBool::new(false)), move || {
        let (log, xs, interceptor) = (StdArc::clone(&log2), xs.clone(), interceptor.clone());
        async move {
            let world = TestWorld::new_with(&world_config(world_seed, active, read_size, Some(interceptor)));
            let mut rng = StdRng::seed_from_u64(input_seed ^ 0xa5a5);
            let ks: [Replicated<Fp25519>; 3] = key.share_with(&mut rng);
            let mut inputs: [Vec<(Replicated<Fp25519>, Replicated<Fp25519>)>; 3] = [Vec::new(), Vec::new(), Vec::new()];
            for x in xs {
                let [x0, x1, x2] = x.share_with(&mut rng);
                inputs[0].push((x0, ks[0].clone()));
                inputs[1].push((x1, ks[1].clone()));
                inputs[2].push((x2, ks[2].clone()));
            }
            let log = &log;
            world
                .malicious(Shared3(inputs), |ctx, shares: Vec<(Replicated<Fp25519>, Replicated<Fp25519>)>| async move {
                    let h = role_idx(ctx.role());
                    let ctx = ctx.set_total_records(records);
                    let v = ctx.validator::<Fp25519>();
                    let m_ctx = v.context();
                    let r: Result<Vec<Vec<u8>>, Error> = m_ctx
                        .try_join(zip(repeat(m_ctx.clone()).enumerate(), shares.into_iter()).map(|((i, c), (x, k))| async move {
                            let out = eval_dy_prf::<_, 1>(c, RecordId::from(i), &k, x).await?;
                            Ok::<_, Error>(out[0].to_le_bytes().to_vec())
                        }))
                        .await;
                    log.lock().unwrap().insert(h, r.map_err(|e| e.to_string()));
                })
                .await;
        }
    });
    let t = tamper.log.lock().unwrap();
    OneRun { outcome, res: log.lock().unwrap().clone(), inv: t.chans.clone(), fired: t.fired.clone() }
}

fn exec_prf(p: &Value, explicit: Option<Vec<u32>>, tampered: bool) -> RunRes {
    use rand::Rng as _;
    if !valid(p, tampered) {
        return RunRes::invalid("mac: plan");
    }
    let records = pu(p, "records");
    let mut rng = StdRng::seed_from_u64(pu64(p, "input_seed"));
    let key: Fp25519 = rng.r#gen();
    let xs: Vec<Fp25519> = (0..records).map(|i| if i % 5 == 3 { Fp25519::ZERO } else { rng.r#gen() }).collect();
    // g^(1/(k+x)), mapped to u64 exactly as the protocol's output type does
    let want: Vec<Vec<u8>> = xs.iter().map(|x| u64::from(RP25519::from(Fp25519::ONE) * (key + *x).invert()).to_le_bytes().to_vec()).collect();
    let spec = SchedSpec::from_json(&p["sched"], explicit);
    let shape = format!("mac prf r{records} a{} t{}", pu(&p["knobs"], "active"), u8::from(tampered));
    let honest = run_prf(p, &spec, &xs, key, Vec::new());
    if let Some(v) = judge_honest(&honest, &want, &shape) {
        return v;
    }
    if !tampered {
        let mut res = RunRes::pass(shape, honest.outcome.decisions > 0, Some(honest.outcome));
        res.probe("prf_records", records as u64);
        return res;
    }
    let corrupt = pu(p, "corrupt");
    let mut sr = Rng::sub(pu64(p, "site_seed"), 0);
    let site = match p.get("site") {
        Some(s) if !s.is_null() => Some(Site::from_json(s)),
        _ => draw_site(&honest.inv, &|k: &ChanKey| k.sender_helper() == corrupt, &mut sr, &["addle:32", "addle:32", "flip:0", "flip:2", "add1"]),
    };
    let Some(site) = site else {
        return RunRes::inconclusive("no_site", "no channel of the corrupt helper".into(), shape, Some(honest.outcome));
    };
    let bad = run_prf(p, &spec, &xs, key, vec![site.clone()]);
    judge_tampered(&bad, &want, corrupt, &[site], 1, "prf", honest.inv.len(), shape)
}

// ------------------------------------------------------------------------------------------------
// vectorised MAC shares: Fp25519 x 16 lanes (the production layout of the pseudonym step)
// ------------------------------------------------------------------------------------------------

const LANES: usize = 16;
type MalVec = crate::secret_sharing::replicated::malicious::AdditiveShare<Fp25519, LANES>;

fn run_vec16(p: &Value, spec: &SchedSpec, xs: &[[Fp25519; LANES]], ys: &[[Fp25519; LANES]], sites: Vec<Site>) -> OneRun {
    let records = pu(p, "records");
    let knobs = &p["knobs"];
    let (active, read_size, world_seed) = (pu(knobs, "active"), pu(knobs, "read_size"), pu64(knobs, "world_seed"));
    let input_seed = pu64(p, "input_seed");
    let (tamper, interceptor) = faults::tamper_many(sites);
    let log: StdArc<StdMutex<BTreeMap<usize, HelperRes>>> = StdArc::new(StdMutex::new(BTreeMap::new()));
    let log2 = StdArc::clone(&log);
    let (xs, ys) = (xs.to_vec(), ys.to_vec());
    let outcome = sim_async(spec, StdArc::new(AtomicBool::new(false)), move || {
        let (log, xs, ys, interceptor) = (StdArc::clone(&log2), xs.clone(), ys.clone(), interceptor.clone());
        async move {
            let world = TestWorld::new_with(&world_config(world_seed, active, read_size, Some(interceptor)));
            let mut rng = StdRng::seed_from_u64(input_seed ^ 0x1616);
            type In = (Replicated<Fp25519, LANES>, Replicated<Fp25519, LANES>);
            let mut inputs: [Vec<In>; 3] = [Vec::new(), Vec::new(), Vec::new()];
            for (x, y) in zip(xs, ys) {
                let [x0, x1, x2]: [Replicated<Fp25519, LANES>; 3] = x.share_with(&mut rng);
                let [y0, y1, y2]: [Replicated<Fp25519, LANES>; 3] = y.share_with(&mut rng);
                inputs[0].push((x0, y0));
                inputs[1].push((x1, y1));
                inputs[2].push((x2, y2));
            }
            let log = &log;
            world
                .malicious(Shared3(inputs), |ctx, shares: Vec<In>| async move {
                    let h = role_idx(ctx.role());
                    let ctx = ctx.set_total_records(records);
                    let v = ctx.validator::<Fp25519>();
                    let m_ctx = v.context();
                    let r: Result<Vec<Vec<u8>>, Error> = m_ctx
                        .try_join(zip(repeat(m_ctx.clone()).enumerate(), shares.into_iter()).map(|((i, c), (a, b))| async move {
                            let rid = RecordId::from(i);
                            let a: MalVec = a.upgrade(c.narrow("upgrade_a"), rid).await?;
                            let b: MalVec = b.upgrade(c.narrow("upgrade_b"), rid).await?;
                            let z = a.multiply(&b, c.narrow("mult"), rid).await?;
                            c.validate_record(rid).await?;
                            let opened = reveal(c.narrow("open"), rid, &z).await?;
                            Ok::<_, Error>(opened.into_iter().flat_map(|v| ser(&v)).collect::<Vec<u8>>())
                        }))
                        .await;
                    log.lock().unwrap().insert(h, r.map_err(|e| e.to_string()));
                })
                .await;
        }
    });
    let t = tamper.log.lock().unwrap();
    OneRun { outcome, res: log.lock().unwrap().clone(), inv: t.chans.clone(), fired: t.fired.clone() }
}

fn exec_vec16(p: &Value, explicit: Option<Vec<u32>>, tampered: bool) -> RunRes {
    use rand::Rng as _;
    if !valid(p, tampered) {
        return RunRes::invalid("mac: plan");
    }
    let records = pu(p, "records");
    let mut rng = StdRng::seed_from_u64(pu64(p, "input_seed"));
    let mut draw = |i: usize| -> [Fp25519; LANES] {
        std::array::from_fn(|l| if (i + l) % 11 == 3 { Fp25519::ZERO } else if (i + l) % 13 == 5 { Fp25519::ONE } else { rng.r#gen() })
    };
    let xs: Vec<[Fp25519; LANES]> = (0..records).map(&mut draw).collect();
    let ys: Vec<[Fp25519; LANES]> = (0..records).map(&mut draw).collect();
    let want: Vec<Vec<u8>> = zip(&xs, &ys).map(|(x, y)| (0..LANES).flat_map(|l| ser(&(x[l] * y[l]))).collect()).collect();
    let spec = SchedSpec::from_json(&p["sched"], explicit);
    let shape = format!("mac vec16 r{records} a{} t{} {}", pu(&p["knobs"], "active"), u8::from(tampered), p.get("attack").and_then(Value::as_str).unwrap_or("-"));
    let honest = run_vec16(p, &spec, &xs, &ys, Vec::new());
    if let Some(v) = judge_honest(&honest, &want, &shape) {
        return v;
    }
    if !tampered {
        let mut res = RunRes::pass(shape, honest.outcome.decisions > 0, Some(honest.outcome));
        res.probe("vec16_records", records as u64);
        return res;
    }
    let corrupt = pu(p, "corrupt");
    let mut sr = Rng::sub(pu64(p, "site_seed"), 0);
    let attack = p.get("attack").and_then(Value::as_str).unwrap_or("single").to_string();
    let rec_bytes = LANES * 32;
    let sites: Vec<Site> = match p.get("site") {
        Some(s) if !s.is_null() => Site::list_from_json(s),
        _ if attack != "single" => {
            let k = sr.below(records);
            let lanes = pvec(p, "lanes");
            let (l0, l1) = (lanes.first().copied().unwrap_or(0) % LANES, lanes.get(1).copied().unwrap_or(1) % LANES);
            let l1 = if attack == "lane_cancel" && l1 == l0 { (l0 + 1) % LANES } else { l1 };
            let mult = honest.inv.keys().find(|c| c.kind == "mpc" && c.src == corrupt && c.gate.ends_with("/mult")).cloned();
            let open = mult.as_ref().and_then(|m| {
                let third = 3 - corrupt - m.dst;
                honest.inv.keys().find(|c| c.kind == "mpc" && c.src == corrupt && c.dst == third && c.gate.ends_with("/open")).cloned()
            });
            match (mult, open) {
                (Some(m), Some(o)) => {
                    let mut v = Vec::new();
                    for chan in [m, o] {
                        v.push(Site { chan: chan.clone(), chunk: 0, offset: 0, pattern: "addle:32".into(), stream_off: Some(k * rec_bytes + l0 * 32) });
                        if attack == "lane_cancel" {
                            // the same error with the opposite sign in another lane of the same message
                            v.push(Site { chan, chunk: 0, offset: 0, pattern: "suble:32".into(), stream_off: Some(k * rec_bytes + l1 * 32) });
                        }
                    }
                    v
                }
                _ => Vec::new(),
            }
        }
        _ => draw_site(&honest.inv, &|k: &ChanKey| k.sender_helper() == corrupt, &mut sr, &["addle:32", "addle:32", "flip:0", "flip:2", "add1"]).into_iter().collect(),
    };
    if sites.is_empty() {
        return RunRes::inconclusive("no_site", "no channel of the corrupt helper".into(), shape, Some(honest.outcome));
    }
    let need = sites.len();
    let bad = run_vec16(p, &spec, &xs, &ys, sites.clone());
    let mut res = judge_tampered(&bad, &want, corrupt, &sites, need, "vec16", honest.inv.len(), shape);
    if attack == "lane_cancel" {
        res.fault("F1_lane_cancelling_attack", u64::from(bad.fired.len() >= need));
    }
    res
}
