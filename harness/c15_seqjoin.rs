// C15 — sequential join: results exactly once and in input order, at least `w` tasks in flight while
// input remains, all of them polled (dependency patterns inside the window terminate), the fallible
// variant stops at the first error; parallel join returns all-in-order or the first error.
//
// Harness futures are gates released by an environment task in a seeded order; the source stream can
// itself be pending.  Everything runs on scheduler-controlled tasks.

use std::{
    future::Future,
    num::NonZeroUsize,
    pin::Pin,
    sync::{
        Arc as StdArc, Mutex as StdMutex,
        atomic::{AtomicBool, Ordering as AO},
    },
    task::{Context, Poll, Waker},
};

use futures::{Stream, StreamExt, TryStreamExt};
use serde_json::{Value, json};

use crate::{
    seq_join::{SeqJoin, seq_join, seq_try_join_all},
    verif::sim::*,
};

pub fn scenarios() -> Vec<&'static dyn Scenario> {
    vec![&SjScenario]
}

pub struct SjScenario;

#[derive(Default)]
struct St {
    n: usize,
    released: Vec<bool>,
    wakers: Vec<Option<Waker>>,
    polled: Vec<u32>,
    completed: Vec<bool>,
    created: usize,
    yielded: usize,
    /// number of items the source is allowed to hand out
    source_upto: usize,
    /// value of `source_upto` the last time the join polled the source
    source_seen_upto: usize,
    /// the source has returned `None`; polling it again is a contract violation (a plain `unfold`/`iter` source may panic)
    source_ended: bool,
    source_polled_after_end: bool,
    /// wakers of whoever waits for the consumer to have received a given number of results
    yield_waiters: Vec<(usize, Waker)>,
    source_waker: Option<Waker>,
    source_polls_pending: u64,
    /// forward dependency distance: item i is ready only when item i+dep has been polled (0 = none)
    dep: usize,
    window: usize,
    slack: usize,
    window_violation: Option<String>,
    min_inflight_seen: usize,
    max_inflight_seen: usize,
    polled_nonfront: u64,
    poll_waiters: Vec<(usize, Waker)>,
}

struct Item {
    i: usize,
    st: StdArc<StdMutex<St>>,
    err: bool,
}

impl Future for Item {
    type Output = Result<usize, usize>;
    fn poll(self: Pin<&mut Self>, cx: &mut Context<'_>) -> Poll<Self::Output> {
        let mut s = self.st.lock().unwrap();
        let i = self.i;
        s.polled[i] += 1;
        // window lower bound, evaluated whenever the join polls one of its tasks
        let inflight = s.created - s.yielded;
        let avail = s.source_upto.min(s.n) - s.yielded;
        let need = s.window.min(avail);
        s.min_inflight_seen = s.min_inflight_seen.min(inflight);
        s.max_inflight_seen = s.max_inflight_seen.max(inflight);
        if inflight + s.slack < need && s.window_violation.is_none() {
            s.window_violation = Some(format!(
                "poll of task {i}: {inflight} tasks in flight (created {} - yielded {}), but window {} and {} more inputs available",
                s.created, s.yielded, s.window, avail
            ));
        }
        if i > s.yielded {
            s.polled_nonfront += 1;
        }
        if s.polled[i] == 1 {
            let mut k = 0;
            while k < s.poll_waiters.len() {
                if s.poll_waiters[k].0 == i {
                    let (_, w) = s.poll_waiters.swap_remove(k);
                    w.wake();
                } else {
                    k += 1;
                }
            }
        }
        // whoever waits for "task i has been polled" may proceed now
        if s.dep > 0 && i >= s.dep && s.polled[i] == 1 {
            let j = i - s.dep;
            if let Some(w) = s.wakers[j].take() {
                w.wake();
            }
        }
        let dep_ok = s.dep == 0 || i + s.dep >= s.n || s.polled[i + s.dep] > 0;
        if s.released[i] && dep_ok {
            s.completed[i] = true;
            Poll::Ready(if self.err { Err(i) } else { Ok(i) })
        } else {
            s.wakers[i] = Some(cx.waker().clone());
            Poll::Pending
        }
    }
}

/// resolves once task `i` has been polled at least once
struct WaitPolled {
    i: usize,
    st: StdArc<StdMutex<St>>,
}
impl Future for WaitPolled {
    type Output = ();
    fn poll(self: Pin<&mut Self>, cx: &mut Context<'_>) -> Poll<()> {
        let mut s = self.st.lock().unwrap();
        if s.polled[self.i] > 0 {
            Poll::Ready(())
        } else {
            let i = self.i;
            s.poll_waiters.push((i, cx.waker().clone()));
            Poll::Pending
        }
    }
}

/// resolves once the consumer has received at least `n` results
struct WaitYielded {
    n: usize,
    st: StdArc<StdMutex<St>>,
}
impl Future for WaitYielded {
    type Output = ();
    fn poll(self: Pin<&mut Self>, cx: &mut Context<'_>) -> Poll<()> {
        let mut s = self.st.lock().unwrap();
        if s.yielded >= self.n {
            Poll::Ready(())
        } else {
            let n = self.n;
            s.yield_waiters.push((n, cx.waker().clone()));
            Poll::Pending
        }
    }
}

struct Source {
    next: usize,
    st: StdArc<StdMutex<St>>,
    errs: StdArc<Vec<bool>>,
}

impl Stream for Source {
    type Item = Item;
    fn poll_next(mut self: Pin<&mut Self>, cx: &mut Context<'_>) -> Poll<Option<Item>> {
        let st = StdArc::clone(&self.st);
        let mut s = st.lock().unwrap();
        s.source_seen_upto = s.source_upto;
        if s.source_ended {
            s.source_polled_after_end = true;
            return Poll::Ready(None);
        }
        if self.next >= s.n {
            s.source_ended = true;
            return Poll::Ready(None);
        }
        if self.next < s.source_upto {
            let i = self.next;
            self.next += 1;
            s.created += 1;
            Poll::Ready(Some(Item { i, st: StdArc::clone(&self.st), err: self.errs[i] }))
        } else {
            s.source_polls_pending += 1;
            s.source_waker = Some(cx.waker().clone());
            Poll::Pending
        }
    }
}

struct Ctx(NonZeroUsize);
impl SeqJoin for Ctx {
    fn active_work(&self) -> NonZeroUsize {
        self.0
    }
}

impl Scenario for SjScenario {
    fn name(&self) -> &'static str {
        "c15_sj"
    }

    fn generate(&self, seed: u64, tier: Tier) -> Value {
        let mut r = Rng::sub(seed, 15_01);
        let w = r.range(1, 8);
        let n = r.range(0, if tier == Tier::Quick { 24 } else { 40 });
        let variant = r.pick(&["join", "try", "parallel", "ctx_try"]);
        let release = r.perm(n);
        let errs: Vec<usize> = if variant == "join" { vec![] } else { (0..n).filter(|_| r.chance(1, 8)).collect() };
        let dep = if variant == "parallel" || w == 1 || r.chance(1, 2) { 0 } else { r.range(1, w - 1) };
        // the source hands out items in bursts (pending in between) or all at once
        let source_steps: Vec<usize> = if r.chance(1, 2) {
            vec![n]
        } else {
            let mut v = Vec::new();
            let mut k = 0;
            while k < n {
                k = (k + r.range(1, 4)).min(n);
                v.push(k);
            }
            if v.is_empty() {
                v.push(0);
            }
            v
        };
        let est = 60 + n as u64 * 10;
        json!({"w": w, "n": n, "variant": variant, "release": release, "errs": errs, "dep": dep,
               "source_gated": r.chance(1, 2), "inexact_hint": r.chance(1, 2), "gate_on_results": r.chance(1, 2),
               // tasks behind the first failing one never complete (they wait for something the failed step will not send): the
               // join must still report the error
               "stuck_after_err": variant != "join" && r.chance(1, 3),
               "source_steps": source_steps, "sched": SchedSpec::draw(&mut r, est, 200_000)})
    }

    fn exec(&self, p: &Value, explicit: Option<Vec<u32>>) -> RunRes {
        let w = pu(p, "w");
        let n = pu(p, "n");
        let variant = ps(p, "variant").to_string();
        let release = pvec(p, "release");
        let errs = pvec(p, "errs");
        let dep = pu(p, "dep");
        let source_steps = pvec(p, "source_steps");
        let gated = pb(p, "source_gated");
        // (only without forward dependencies: a task that waits for a later task to be polled cannot finish before the source
        // has produced that task, so gating the source on results would deadlock by construction)
        let gate_on_results = p.get("gate_on_results").and_then(Value::as_bool) == Some(true) && dep == 0;
        let stuck_after_err = p.get("stuck_after_err").and_then(Value::as_bool) == Some(true) && !errs.is_empty();
        let first_err_idx = errs.iter().copied().min();
        let inexact = pb(p, "inexact_hint");
        {
            let mut seen = release.clone();
            seen.sort_unstable();
            if w == 0 || seen != (0..n).collect::<Vec<_>>() || errs.iter().any(|e| *e >= n) || dep >= w.max(1) && dep != 0
                || !["join", "try", "parallel", "ctx_try"].contains(&variant.as_str())
                || (variant == "join" && !errs.is_empty()) || (variant == "parallel" && dep != 0)
                || source_steps.last().copied().unwrap_or(0) < n || source_steps.windows(2).any(|x| x[0] > x[1])
            {
                return RunRes::invalid("sj: inconsistent plan");
            }
        }
        let mt = cfg!(feature = "multi-threading");
        let spec = SchedSpec::from_json(&p["sched"], explicit);
        let shape = format!("sj {variant} w{w} n{n} d{dep} e{} s{} g{} x{} mt{}", errs.len(), source_steps.len(), u8::from(gated), u8::from(inexact), u8::from(mt));
        let st = StdArc::new(StdMutex::new(St {
            n,
            released: vec![false; n],
            wakers: vec![None; n],
            polled: vec![0; n],
            completed: vec![false; n],
            dep,
            window: w,
            // the spawning implementation fills its window across several scheduling steps (spawn is one), so a task may be
            // polled before its successors exist: there the per-poll bound is not meaningful, the bound at Pending returns is
            slack: if mt { usize::MAX / 2 } else { 0 },
            min_inflight_seen: usize::MAX,
            // the parallel join takes an iterator: everything is available at once
            source_upto: if variant == "join" { 0 } else { n },
            ..Default::default()
        }));
        let out: StdArc<StdMutex<Option<Result<Vec<usize>, usize>>>> = StdArc::new(StdMutex::new(None));
        let (st2, out2) = (StdArc::clone(&st), StdArc::clone(&out));
        let errv: StdArc<Vec<bool>> = StdArc::new((0..n).map(|i| errs.contains(&i)).collect());
        let (variant2, release2, steps2) = (variant.clone(), release.clone(), source_steps.clone());

        let outcome = run_sim(&spec, StdArc::new(AtomicBool::new(false)), move || {
            let (st, out, errv) = (StdArc::clone(&st2), StdArc::clone(&out2), StdArc::clone(&errv));
            let (variant, release, steps) = (variant2.clone(), release2.clone(), steps2.clone());
            shuttle::future::block_on(async move {
                // environment 1: opens the source in bursts; when gated, the next burst is opened only after
                // the newest task of the previous burst has been polled (upstream depends on downstream progress)
                let env_src = {
                    let st = StdArc::clone(&st);
                    let is_join = variant == "join";
                    shuttle::future::spawn(async move {
                        if !is_join {
                            return;
                        }
                        for upto in steps {
                            {
                                let mut s = st.lock().unwrap();
                                s.source_upto = upto;
                                if let Some(w) = s.source_waker.take() {
                                    w.wake();
                                }
                            }
                            shuttle::future::yield_now().await;
                            if gated && upto > 0 {
                                if gate_on_results {
                                    // upstream depends on downstream consumption: the next burst is produced only after the consumer has
                                    // received every result of the bursts so far
                                    WaitYielded { n: upto, st: StdArc::clone(&st) }.await;
                                } else {
                                    WaitPolled { i: upto - 1, st: StdArc::clone(&st) }.await;
                                }
                            }
                        }
                    })
                };
                // environment 2: releases tasks in the seeded order
                let env = {
                    let st = StdArc::clone(&st);
                    shuttle::future::spawn(async move {
                        for i in release {
                            if stuck_after_err && first_err_idx.is_some_and(|e| i > e) {
                                continue;
                            }
                            {
                                let mut s = st.lock().unwrap();
                                s.released[i] = true;
                                if let Some(w) = s.wakers[i].take() {
                                    w.wake();
                                }
                            }
                            shuttle::future::yield_now().await;
                        }
                    })
                };
                let consumer = {
                    let (st, out) = (StdArc::clone(&st), StdArc::clone(&out));
                    shuttle::future::spawn(async move {
                        let window = NonZeroUsize::new(w).unwrap();
                        let result: Result<Vec<usize>, usize> = match variant.as_str() {
                            "join" => {
                                let src = Source { next: 0, st: StdArc::clone(&st), errs: errv };
                                let mut s = std::pin::pin!(seq_join(window, src));
                                let mut v = Vec::new();
                                loop {
                                    // window lower bound, evaluated whenever the join gives control back without an item: by then it
                                    // must have drawn from the source up to the window or until the source itself was pending
                                    // (valid for both implementations; the spawning one fills its window across several steps)
                                    let item = futures::future::poll_fn(|cx| {
                                        let r = s.as_mut().poll_next(cx);
                                        if r.is_pending() {
                                            let mut g = st.lock().unwrap();
                                            let inflight = g.created - g.yielded;
                                            let avail = g.source_seen_upto.min(g.n) - g.yielded.min(g.source_seen_upto.min(g.n));
                                            let need = g.window.min(avail);
                                            if inflight < need && g.window_violation.is_none() {
                                                g.window_violation = Some(format!(
                                                    "join returned Pending with {inflight} tasks in flight (created {} - yielded {}), but window {} and the source had offered {} more inputs",
                                                    g.created, g.yielded, g.window, avail));
                                            }
                                        }
                                        r
                                    })
                                    .await;
                                    let Some(x) = item else { break };
                                    {
                                        let mut g = st.lock().unwrap();
                                        g.yielded += 1;
                                        let y = g.yielded;
                                        let mut k = 0;
                                        while k < g.yield_waiters.len() {
                                            if g.yield_waiters[k].0 <= y {
                                                let (_, w) = g.yield_waiters.swap_remove(k);
                                                w.wake();
                                            } else {
                                                k += 1;
                                            }
                                        }
                                    }
                                    v.push(x.unwrap());
                                }
                                Ok(v)
                            }
                            "try" | "ctx_try" => {
                                // the library's fallible wrappers (yielded items are not observable from outside:
                                // the window is judged through the dependency patterns, which need it)
                                st.lock().unwrap().slack = usize::MAX / 2;
                                let (st_d, errv) = (StdArc::clone(&st), StdArc::clone(&errv));
                                let items = (0..n).map(move |i| {
                                    st_d.lock().unwrap().created += 1;
                                    Item { i, st: StdArc::clone(&st_d), err: errv[i] }
                                });
                                // an iterator adaptor whose size_hint lower bound is 0 (like `filter`, `flat_map`)
                                let items: Box<dyn Iterator<Item = Item> + Send> = if inexact { Box::new(items.filter(|_| true)) } else { Box::new(items) };
                                if variant == "try" {
                                    seq_try_join_all(window, items).await
                                } else {
                                    Ctx(window).try_join(items).await
                                }
                            }
                            _ => {
                                let ctx = Ctx(window);
                                let st_c = StdArc::clone(&st);
                                {
                                    let mut g = st_c.lock().unwrap();
                                    g.slack = usize::MAX / 2;
                                }
                                let futs: Vec<Item> = (0..n)
                                    .map(|i| {
                                        st_c.lock().unwrap().created += 1;
                                        Item { i, st: StdArc::clone(&st_c), err: errv[i] }
                                    })
                                    .collect();
                                ctx.parallel_join(futs).await
                            }
                        };
                        *out.lock().unwrap() = Some(result);
                    })
                };
                consumer.await.unwrap();
                env.await.unwrap();
                env_src.await.unwrap();
            });
        });
        let _ = &st;
        judge(p, &variant, n, w, dep, &errs, &st, &out, outcome, shape)
    }
}

fn judge(
    _p: &Value, variant: &str, n: usize, w: usize, dep: usize, errs: &[usize],
    st: &StdArc<StdMutex<St>>, out: &StdArc<StdMutex<Option<Result<Vec<usize>, usize>>>>,
    outcome: SimOutcome, shape: String,
) -> RunRes {
    let s = st.lock().unwrap();
    let o = out.lock().unwrap();
    if let Some(v) = &s.window_violation {
        return RunRes::violation("sj_window", v.clone(), shape, Some(outcome));
    }
    if s.source_polled_after_end {
        return RunRes::violation("sj_source_polled_after_end", format!("variant {variant} w={w} n={n}: the source stream was polled again after it had returned None"), shape, Some(outcome));
    }
    match outcome.class {
        "finished" => {}
        "deadlock" | "stepcap" => {
            return RunRes::violation("sj_no_progress",
                format!("{}: variant {variant} w={w} n={n} dep={dep}: created {} yielded {} completed {}; {}", outcome.class, s.created, s.yielded,
                    s.completed.iter().filter(|c| **c).count(), truncate(&outcome.panic_msg.clone().unwrap_or_default(), 200)),
                shape, Some(outcome));
        }
        _ => {
            // the spawning implementation cancels the tasks still in flight when the consumer stops at the first error; the
            // cancellation marker is a panic inside the cancelled task, which tokio confines to that task while shuttle fails the
            // whole execution: a stub artefact, counted and not judged (only after a planned error, only that message)
            let msg = outcome.panic_msg.clone().unwrap_or_default();
            if cfg!(feature = "multi-threading") && variant != "join" && !errs.is_empty() && (msg.contains("SequentialFutures: spawned task") || msg.contains("parallel_join: task cancelled")) && msg.contains("cancelled") {
                let mut res = RunRes::pass(shape, true, Some(outcome));
                res.probe("mt_cancellation_marker_panic_after_error", 1);
                return res;
            }
            return RunRes::violation("sj_panic", format!("unexpected panic: {msg}"), shape, Some(outcome));
        }
    }
    let Some(result) = o.as_ref() else {
        return RunRes::violation("sj_no_result", "run finished without a result".into(), shape, Some(outcome));
    };
    let first_err = errs.iter().copied().min();
    match (variant, result) {
        ("parallel", Err(e)) if errs.contains(e) => {}
        ("parallel", Ok(v)) if errs.is_empty() && *v == (0..n).collect::<Vec<_>>() => {}
        ("parallel", r) => {
            return RunRes::violation("sj_parallel_result", format!("parallel_join returned {r:?}, planned errors {errs:?}, n={n}"), shape, Some(outcome));
        }
        (_, Ok(v)) if first_err.is_none() && *v == (0..n).collect::<Vec<_>>() => {}
        (_, Err(e)) if first_err == Some(*e) => {}
        (_, r) => {
            return RunRes::violation("sj_order_or_error",
                format!("{variant} returned {r:?}; expected {}", match first_err { Some(e) => format!("Err({e}) (first error in input order)"), None => format!("Ok(0..{n})") }),
                shape, Some(outcome));
        }
    }
    let mut res = RunRes::pass(shape, outcome.decisions > 0 && n > 1, Some(outcome));
    res.probe("nonfront_polls", s.polled_nonfront);
    res.probe("source_pending", s.source_polls_pending);
    res.probe("dep_runs", u64::from(dep > 0));
    res.probe("error_runs", u64::from(!errs.is_empty()));
    res.probe("error_with_stuck_successors", u64::from(_p.get("stuck_after_err").and_then(Value::as_bool) == Some(true) && !errs.is_empty()));
    res
}
