// Harness message type: `Raw<N>` is an N-byte opaque message that can travel over any channel.

use std::{convert::Infallible, fmt::Debug};

use generic_array::{ArrayLength, GenericArray};

use crate::{ff::Serializable, secret_sharing::Sendable};

#[derive(Clone, PartialEq, Eq)]
pub struct Raw<N: ArrayLength>(pub GenericArray<u8, N>);

impl<N: ArrayLength> Debug for Raw<N> {
    fn fmt(&self, f: &mut std::fmt::Formatter<'_>) -> std::fmt::Result {
        write!(f, "Raw{:02x?}", self.0.as_slice())
    }
}

impl<N: ArrayLength> Raw<N> {
    pub fn from_slice(b: &[u8]) -> Self {
        Self(GenericArray::from_slice(b).clone())
    }
    /// Deterministic payload for (channel tag, record index): attributable to exactly one send.
    pub fn tagged(tag: u64, index: u64) -> Self {
        Self::from_slice(&payload(tag, index, N::USIZE))
    }
    pub fn bytes(&self) -> &[u8] {
        self.0.as_slice()
    }
}

/// The payload bytes of record `index` on the channel with tag `tag`, `n` bytes long.
pub fn payload(tag: u64, index: u64, n: usize) -> Vec<u8> {
    let mut out = Vec::with_capacity(n);
    let mut k = 0u64;
    while out.len() < n {
        let mut x = tag
            .wrapping_mul(0x9E37_79B9_7F4A_7C15)
            .wrapping_add(index.wrapping_mul(0xBF58_476D_1CE4_E5B9))
            .wrapping_add(k.wrapping_mul(0x94D0_49BB_1331_11EB));
        x ^= x >> 29;
        x = x.wrapping_mul(0xD6E8_FEB8_6659_FD93);
        x ^= x >> 32;
        for j in 0..8 {
            if out.len() < n {
                out.push((x >> (8 * j)) as u8);
            }
        }
        k += 1;
    }
    out
}

impl<N: ArrayLength> Serializable for Raw<N> {
    type Size = N;
    type DeserializationError = Infallible;

    fn serialize(&self, buf: &mut GenericArray<u8, Self::Size>) {
        buf.copy_from_slice(self.0.as_slice());
    }

    fn deserialize(buf: &GenericArray<u8, Self::Size>) -> Result<Self, Self::DeserializationError> {
        Ok(Self(buf.clone()))
    }
}

impl<N: ArrayLength + Send + Sync + 'static> Sendable for Raw<N> where GenericArray<u8, N>: Send + Sync {}
