// Harness message type: `Raw<N>` is an N-byte opaque message that can travel over any channel.
// Deserialization is fallible, like that of field elements and padded bit arrays: the pattern "every byte 0xFD" is
// not a valid message (`payload()` never produces it), so that faults can plant an undecodable record.

use std::fmt::Debug;

use generic_array::{ArrayLength, GenericArray};

use crate::{ff::Serializable, secret_sharing::Sendable};

#[derive(Clone, PartialEq, Eq)]
pub struct Raw<N: ArrayLength>(pub GenericArray<u8, N>);

impl<N: ArrayLength> Debug for Raw<N> {
    fn fmt(&self, f: &mut std::fmt::Formatter<'_>) -> std::fmt::Result {
        write!(f, "Raw{:02x?}", self.0.as_slice())
    }
}

impl<N: ArrayLength> Raw<N> {
    pub fn from_slice(b: &[u8]) -> Self {
        Self(GenericArray::from_slice(b).clone())
    }
    /// Deterministic payload for (channel tag, record index): attributable to exactly one send.
    pub fn tagged(tag: u64, index: u64) -> Self {
        Self::from_slice(&payload(tag, index, N::USIZE))
    }
    pub fn bytes(&self) -> &[u8] {
        self.0.as_slice()
    }
}

/// The payload bytes of record `index` on the channel with tag `tag`, `n` bytes long.
pub fn payload(tag: u64, index: u64, n: usize) -> Vec<u8> {
    let mut out = Vec::with_capacity(n);
    let mut k = 0u64;
    while out.len() < n {
        let mut x = tag
            .wrapping_mul(0x9E37_79B9_7F4A_7C15)
            .wrapping_add(index.wrapping_mul(0xBF58_476D_1CE4_E5B9))
            .wrapping_add(k.wrapping_mul(0x94D0_49BB_1331_11EB));
        x ^= x >> 29;
        x = x.wrapping_mul(0xD6E8_FEB8_6659_FD93);
        x ^= x >> 32;
        for j in 0..8 {
            if out.len() < n {
                out.push((x >> (8 * j)) as u8);
            }
        }
        k += 1;
    }
    if out.iter().all(|b| *b == POISON) {
        let last = out.len() - 1;
        out[last] = POISON - 1;
    }
    out
}

pub const POISON: u8 = 0xFD;

#[derive(Debug, Clone, PartialEq, Eq)]
pub struct Undecodable;
impl std::fmt::Display for Undecodable {
    fn fmt(&self, f: &mut std::fmt::Formatter<'_>) -> std::fmt::Result {
        write!(f, "undecodable harness message (poison pattern)")
    }
}
impl std::error::Error for Undecodable {}

impl<N: ArrayLength> Serializable for Raw<N> {
    type Size = N;
    type DeserializationError = Undecodable;

    fn serialize(&self, buf: &mut GenericArray<u8, Self::Size>) {
        buf.copy_from_slice(self.0.as_slice());
    }

    fn deserialize(buf: &GenericArray<u8, Self::Size>) -> Result<Self, Self::DeserializationError> {
        if buf.iter().all(|b| *b == POISON) { Err(Undecodable) } else { Ok(Self(buf.clone())) }
    }
}

impl<N: ArrayLength + Send + Sync + 'static> Sendable for Raw<N> where GenericArray<u8, N>: Send + Sync {}
