// C13 — each record sent on a channel reaches exactly the matching receive, in any order.
//
// System: the real Gateways of a TestWorld (3 helpers, optionally x3 shards), real in-memory MPC and
// shard transports, real OrderingSender / UnorderedReceiver / StreamCollection.  Every channel end
// point is its own shuttle task; records are driven through the real `seq_join(active)` window.

use std::{
    num::NonZeroUsize,
    sync::{
        Arc as StdArc, Mutex as StdMutex,
        atomic::{AtomicBool, Ordering as AO},
    },
};

use futures::{StreamExt, stream};
use generic_array::ArrayLength;
use serde_json::{Value, json};
use typenum::{U1, U2, U3, U4, U8, U14, U32};

use crate::{
    helpers::{ChannelId, Gateway, GatewayConfig, Role, TotalRecords},
    protocol::{Gate, RecordId},
    seq_join::seq_join,
    sharding::ShardIndex,
    test_fixture::{TestWorld, TestWorldConfig, WithShards},
    verif::{
        msg::{Raw, payload},
        sim::*,
    },
};

pub fn scenarios() -> Vec<&'static dyn Scenario> {
    vec![&GwScenario]
}

pub enum AnyWorld {
    One(TestWorld),
    Three(TestWorld<WithShards<3>>),
}

// The worlds are shared by reference between tasks of one simulated execution, which shuttle runs
// one at a time on a single OS thread.
pub struct SharedWorld(pub AnyWorld);
unsafe impl Send for SharedWorld {}
unsafe impl Sync for SharedWorld {}

impl SharedWorld {
    pub fn gw(&self, role: usize, shard: usize) -> &Gateway {
        let role = Role::all()[role];
        match &self.0 {
            AnyWorld::One(w) => w.gateway(role),
            AnyWorld::Three(w) => w.gateway(role, ShardIndex::from(shard as u32)),
        }
    }
}

pub fn gate(k: usize) -> Gate {
    Gate::from(format!("protocol/verif-ch{k}").as_str())
}

pub struct GwScenario;

const SIZES: [usize; 7] = [1, 2, 3, 4, 8, 14, 32];

impl Scenario for GwScenario {
    fn name(&self) -> &'static str {
        "c13_gw"
    }

    fn generate(&self, seed: u64, tier: Tier) -> Value {
        let mut r = Rng::sub(seed, 13_01);
        let sharded = r.chance(1, 3);
        let active = r.pick(&[2usize, 4, 16]);
        let read_size = r.pick(&[1usize, 2, 3, 5, 8, 14, 16, 31, 64, 100, 256, 2048, 4096]);
        let nch = r.range(1, 5);
        let maxt = if tier == Tier::Quick { 40 } else { 64 };
        let mut channels: Vec<Value> = Vec::new();
        let mut keys = std::collections::BTreeSet::new();
        for k in 0..nch {
            for attempt in 0..8 {
                let shard_kind = sharded && r.chance(1, 2);
                let src = r.below(3);
                let (dst, shard) = if shard_kind {
                    // src/dst are shard indices of helper `helper`
                    let s = r.below(3);
                    (((s + 1 + r.below(2)) % 3), s)
                } else {
                    ((src + 1 + r.below(2)) % 3, if sharded { r.below(3) } else { 0 })
                };
                // some gates are shared between channels so that (peer, step, shard) collisions are probed
                let g = if attempt < 4 && r.chance(1, 2) { 0 } else { k + 1 };
                let total = r.range(1, maxt);
                let indeterminate = !shard_kind && r.chance(1, 5);
                // per-channel active-work override: power of two, at most the gateway's
                let ch_active = if shard_kind { active } else { r.pick(&[2usize, 4, 16].iter().copied().filter(|a| *a <= active).collect::<Vec<_>>()) };
                let c = json!({
                    "kind": if shard_kind { "shard" } else { "mpc" },
                    "helper": r.below(3), "src": if shard_kind { shard } else { src }, "dst": dst, "shard": shard,
                    "gate": g, "size": r.pick(&SIZES), "total": total, "indeterminate": indeterminate,
                    "active": ch_active, "pattern": if !shard_kind && r.chance(1, 3) { "ring" } else { "oneway" },
                    "yield_seed": r.next_u64() >> 12, "perm_seed": r.next_u64() >> 12,
                    "check_close": r.chance(1, 2),
                    "send_style": if r.chance(1, 2) { "tasks" } else { "seqjoin" },
                    "poison": if r.chance(1, 6) { json!(r.below(total)) } else { Value::Null },
                });
                let ks: Vec<_> = if ps(&c, "pattern") == "ring" {
                    (0..3).map(|s| ("mpc".to_string(), 0, s, (s + 1) % 3, g, shard)).collect()
                } else {
                    vec![chan_key(&c)]
                };
                if ks.iter().all(|k| !keys.contains(k)) {
                    keys.extend(ks);
                    channels.push(c);
                    break;
                }
            }
        }
        let recs: usize = channels.iter().map(|c| pu(c, "total")).sum();
        let est = 300 + recs as u64 * 40;
        json!({
            "sharded": sharded, "active": active, "read_size": read_size, "channels": channels,
            "world_seed": r.next_u64() >> 12,
            "sched": SchedSpec::draw(&mut r, est, 400_000),
        })
    }

    fn exec(&self, p: &Value, explicit: Option<Vec<u32>>) -> RunRes {
        gw_exec(p, explicit)
    }
}

#[derive(Default)]
struct GwLog {
    /// (channel, index, result)
    recv: Vec<(usize, usize, Result<Vec<u8>, String>)>,
    /// channel -> send error strings
    send_err: Vec<(usize, usize, String)>,
    past_end_recv: Vec<(usize, Result<Vec<u8>, String>)>,
    past_end_send: Vec<(usize, Result<(), String>)>,
    shard_stream_ended: Vec<usize>,
    tasks_done: usize,
    early_requests: u64,
}

/// channel identity used for cross-talk detection: two channel specs that map to the same
/// (kind, helper/shard, src, dst, gate) tuple are the *same* logical channel and are not generated.
fn chan_key(c: &Value) -> (String, usize, usize, usize, usize, usize) {
    let kind = ps(c, "kind").to_string();
    if kind == "shard" {
        (kind, pu(c, "helper"), pu(c, "src"), pu(c, "dst"), pu(c, "gate"), 0)
    } else {
        (kind, 0, pu(c, "src"), pu(c, "dst"), pu(c, "gate"), pu(c, "shard"))
    }
}

fn gw_exec(p: &Value, explicit: Option<Vec<u32>>) -> RunRes {
    let sharded = pb(p, "sharded");
    let active = pu(p, "active");
    let read_size = pu(p, "read_size");
    let channels: Vec<Value> = p["channels"].as_array().cloned().unwrap_or_default();
    if channels.is_empty() || !active.is_power_of_two() || active < 2 || read_size == 0 {
        return RunRes::invalid("gw: no channels or bad knobs");
    }
    // validity: distinct logical channels; ring channels occupy (src -> right) for all three helpers
    let mut keys = std::collections::BTreeSet::new();
    for c in &channels {
        let kind = ps(c, "kind");
        if kind != "mpc" && kind != "shard" {
            return RunRes::invalid("gw: kind");
        }
        if (kind == "shard" || pu(c, "shard") > 0) && !sharded {
            return RunRes::invalid("gw: shard channel in unsharded world");
        }
        if pu(c, "src") > 2 || pu(c, "dst") > 2 || pu(c, "src") == pu(c, "dst") || pu(c, "helper") > 2 || pu(c, "shard") > 2 {
            return RunRes::invalid("gw: endpoints");
        }
        if pu(c, "total") == 0 || !SIZES.contains(&pu(c, "size")) {
            return RunRes::invalid("gw: total/size");
        }
        let a = pu(c, "active");
        if !a.is_power_of_two() || a < 2 || a > active {
            return RunRes::invalid("gw: channel active");
        }
        if ps(c, "pattern") == "ring" {
            if kind != "mpc" {
                return RunRes::invalid("gw: ring on shard channel");
            }
            for s in 0..3 {
                if !keys.insert(("mpc".to_string(), 0, s, (s + 1) % 3, pu(c, "gate"), pu(c, "shard"))) {
                    return RunRes::invalid("gw: duplicate logical channel");
                }
            }
        } else if !keys.insert(chan_key(c)) {
            return RunRes::invalid("gw: duplicate logical channel");
        }
    }
    let spec = SchedSpec::from_json(&p["sched"], explicit);
    let total_recs: usize = channels.iter().map(|c| pu(c, "total")).sum();
    let shape = format!(
        "gw s{} a{active} r{read_size} ch{} rec{total_recs} {}",
        u8::from(sharded),
        channels.len(),
        channels.iter().map(|c| format!("{}{}{}", &ps(c, "kind")[..1], pu(c, "size"), &ps(c, "pattern")[..1])).collect::<Vec<_>>().join(",")
    );
    let world_seed = pu64(p, "world_seed");

    let log = StdArc::new(StdMutex::new(GwLog::default()));
    let log2 = StdArc::clone(&log);
    let channels2 = channels.clone();
    let outcome = run_sim(&spec, StdArc::new(AtomicBool::new(false)), move || {
        let log = StdArc::clone(&log2);
        let channels = channels2.clone();
        shuttle::future::block_on(async move {
            let config = TestWorldConfig {
                gateway_config: GatewayConfig {
                    active: active.try_into().unwrap(),
                    read_size: read_size.try_into().unwrap(),
                    ..Default::default()
                },
                seed: world_seed,
                ..Default::default()
            };
            let world = StdArc::new(SharedWorld(if sharded {
                AnyWorld::Three(TestWorld::<WithShards<3>>::with_shards(&config))
            } else {
                AnyWorld::One(TestWorld::new_with(&config))
            }));
            let mut handles = Vec::new();
            for (k, c) in channels.iter().enumerate() {
                let size = pu(c, "size");
                macro_rules! go {
                    ($n:ty) => {
                        spawn_channel::<$n>(k, c, &world, &log, &mut handles)
                    };
                }
                match size {
                    1 => go!(U1),
                    2 => go!(U2),
                    3 => go!(U3),
                    4 => go!(U4),
                    8 => go!(U8),
                    14 => go!(U14),
                    32 => go!(U32),
                    _ => unreachable!(),
                }
            }
            for h in handles {
                h.await.unwrap();
            }
            drop(world);
        });
    });

    // ---------------- oracle ----------------
    let l = log.lock().unwrap();
    let mut res_probes: Vec<(&str, u64)> = Vec::new();
    // (1) every received value is the one sent for exactly that (channel, index)
    for (k, i, r) in &l.recv {
        let c = &channels[*k % channels.len()];
        let size = pu(c, "size");
        let tag = chan_tag(*k);
        let poisoned = ps(c, "pattern") != "ring" && c.get("poison").and_then(Value::as_u64) == Some(*i as u64);
        match r {
            Ok(b) if !poisoned && b[..] == payload(tag, *i as u64, size)[..] => {}
            Err(_) if poisoned => {}
            Ok(b) => {
                return RunRes::violation("gw_wrong_value",
                    format!("channel {k} ({}) receive({i}) returned {b:02x?}, expected {:02x?}", c, payload(tag, *i as u64, size)),
                    shape, Some(outcome));
            }
            Err(e) => {
                return RunRes::violation("gw_recv_error", format!("channel {k} ({}) receive({i}) failed: {e}", c), shape, Some(outcome));
            }
        }
    }
    if let Some((k, i, e)) = l.send_err.first() {
        return RunRes::violation("gw_send_error", format!("channel {k} send({i}) failed: {e}"), shape, Some(outcome));
    }
    // (2) close semantics
    for (k, r) in &l.past_end_recv {
        if let Ok(b) = r {
            return RunRes::violation("gw_recv_past_total", format!("channel {k}: receive(total) returned data {b:02x?} instead of end-of-stream"), shape, Some(outcome));
        }
    }
    for (k, r) in &l.past_end_send {
        if r.is_ok() {
            return RunRes::violation("gw_send_past_total", format!("channel {k}: send(total) was accepted"), shape, Some(outcome));
        }
    }
    // (3) progress
    match outcome.class {
        "finished" => {
            // everything that was requested must have resolved
            let mut want = 0usize;
            for c in &channels {
                want += pu(c, "total") * if ps(c, "pattern") == "ring" { 3 } else { 1 };
            }
            if l.recv.len() != want {
                return RunRes::violation("gw_lost_receive", format!("finished with {} of {want} receives resolved", l.recv.len()), shape, Some(outcome));
            }
        }
        "deadlock" | "stepcap" => {
            return RunRes::violation("gw_no_progress",
                format!("{} with a full window: {} receives resolved; {}", outcome.class, l.recv.len(), truncate(&outcome.panic_msg.clone().unwrap_or_default(), 300)),
                shape, Some(outcome));
        }
        _ => {
            return RunRes::violation("gw_panic", format!("unexpected panic: {}", outcome.panic_msg.clone().unwrap_or_default()), shape, Some(outcome));
        }
    }
    res_probes.push(("shard_streams_ended", l.shard_stream_ended.len() as u64));
    res_probes.push(("close_checks", (l.past_end_recv.len() + l.past_end_send.len()) as u64));
    let nontrivial = outcome.decisions > 0 && total_recs > 1;
    let mut res = RunRes::pass(shape, nontrivial, Some(outcome));
    for (k, v) in res_probes {
        res.probe(k, v);
    }
    res.fault("F4_batching_knobs", 1);
    res
}

fn mk<N: ArrayLength>(tag: u64, i: usize, poison: Option<usize>) -> Raw<N> {
    if poison == Some(i) { Raw::<N>::from_slice(&vec![crate::verif::msg::POISON; N::USIZE]) } else { Raw::<N>::tagged(tag, i as u64) }
}

pub fn chan_tag(k: usize) -> u64 {
    1000 + k as u64
}

fn yields_for(seed: u64, i: usize) -> usize {
    (fnv(FNV0, seed ^ (i as u64).wrapping_mul(0x9E37_79B9)) % 4) as usize
}

/// order in which the receiving side asks for records: a permutation inside aligned blocks of the
/// window size (i.e. "any order within the active window")
fn recv_order(total: usize, window: usize, seed: u64) -> Vec<usize> {
    let mut out = Vec::with_capacity(total);
    let mut b = 0;
    while b < total {
        let e = (b + window).min(total);
        let mut blk: Vec<usize> = (b..e).collect();
        Rng::sub(seed, b as u64).shuffle(&mut blk);
        out.extend(blk);
        b = e;
    }
    out
}

type Handles = Vec<shuttle::future::JoinHandle<()>>;

fn spawn_channel<N>(k: usize, c: &Value, world: &StdArc<SharedWorld>, log: &StdArc<StdMutex<GwLog>>, handles: &mut Handles)
where
    N: ArrayLength + Send + Sync + 'static,
    generic_array::GenericArray<u8, N>: Send + Sync,
{
    let kind = ps(c, "kind").to_string();
    let total = pu(c, "total");
    let indeterminate = pb(c, "indeterminate");
    let ch_active = pu(c, "active");
    let g = gate(pu(c, "gate"));
    let yield_seed = pu64(c, "yield_seed");
    let perm_seed = pu64(c, "perm_seed");
    let check_close = pb(c, "check_close");
    let tag = chan_tag(k);
    let window = NonZeroUsize::new(ch_active).unwrap();
    // one record of a one-way channel may be sent as bytes that do not decode: its receive fails, the others are unaffected
    let poison: Option<usize> = c.get("poison").and_then(Value::as_u64).map(|x| x as usize);

    if kind == "shard" {
        let helper = pu(c, "helper");
        let (src, dst) = (pu(c, "src"), pu(c, "dst"));
        // sender
        {
            let world = StdArc::clone(world);
            let log = StdArc::clone(log);
            let g = g.clone();
            handles.push(shuttle::future::spawn(async move {
                let tx = world.gw(helper, src).get_shard_sender::<Raw<N>>(
                    &ChannelId::new(ShardIndex::from(dst as u32), g),
                    TotalRecords::specified(total).unwrap(),
                );
                let tx = &tx;
                let log2 = &log;
                let mut s = seq_join(window, stream::iter(0..total).map(move |i| async move {
                    for _ in 0..yields_for(yield_seed, i) {
                        shuttle::future::yield_now().await;
                    }
                    if let Err(e) = tx.send(RecordId::from(i), mk::<N>(tag, i, poison)).await {
                        log2.lock().unwrap().send_err.push((k, i, e.to_string()));
                    }
                }));
                while s.next().await.is_some() {}
                drop(s);
                if check_close {
                    let r = tx.send(RecordId::from(total), Raw::<N>::tagged(tag, total as u64)).await;
                    log.lock().unwrap().past_end_send.push((k, r.map_err(|e| e.to_string())));
                }
                log.lock().unwrap().tasks_done += 1;
            }));
        }
        // receiver: FIFO stream that must end exactly after `total` records
        {
            let world = StdArc::clone(world);
            let log = StdArc::clone(log);
            handles.push(shuttle::future::spawn(async move {
                let mut rx = world.gw(helper, dst).get_shard_receiver::<Raw<N>>(&ChannelId::new(ShardIndex::from(src as u32), g));
                let mut i = 0usize;
                while let Some(item) = rx.next().await {
                    log.lock().unwrap().recv.push((k, i, item.map(|m| m.bytes().to_vec()).map_err(|e| e.to_string())));
                    i += 1;
                    if i > total + 2 {
                        break;
                    }
                }
                let mut l = log.lock().unwrap();
                l.shard_stream_ended.push(k);
                l.tasks_done += 1;
            }));
        }
        return;
    }

    let shard = pu(c, "shard");
    let ring = ps(c, "pattern") == "ring";
    let pairs: Vec<(usize, usize)> = if ring {
        (0..3).map(|s| (s, (s + 1) % 3)).collect()
    } else {
        vec![(pu(c, "src"), pu(c, "dst"))]
    };
    let tr = if indeterminate { TotalRecords::Indeterminate } else { TotalRecords::specified(total).unwrap() };

    if ring {
        // multiplication-like: every helper sends record i to its right neighbour and then waits for
        // record i from its left neighbour, `window` records at a time
        for me in 0..3usize {
            let world = StdArc::clone(world);
            let log = StdArc::clone(log);
            let g = g.clone();
            handles.push(shuttle::future::spawn(async move {
                let right = Role::all()[(me + 1) % 3];
                let left = Role::all()[(me + 2) % 3];
                let tx = world.gw(me, shard).get_mpc_sender::<Raw<N>>(&ChannelId::new(right, g.clone()), tr, ch_active.try_into().unwrap());
                let rx = world.gw(me, shard).get_mpc_receiver::<Raw<N>>(&ChannelId::new(left, g));
                let (tx, rx, log2) = (&tx, &rx, &log);
                // what `me` sends is tagged with the sender's identity so that a value delivered to
                // the wrong peer is recognised
                let my_tag = tag * 10 + me as u64;
                let left_tag = tag * 10 + ((me + 2) % 3) as u64;
                let mut s = seq_join(window, stream::iter(0..total).map(move |i| async move {
                    for _ in 0..yields_for(yield_seed ^ me as u64, i) {
                        shuttle::future::yield_now().await;
                    }
                    if let Err(e) = tx.send(RecordId::from(i), Raw::<N>::tagged(my_tag, i as u64)).await {
                        log2.lock().unwrap().send_err.push((k, i, e.to_string()));
                    }
                    let r = rx.receive(RecordId::from(i)).await;
                    let r = match r {
                        Ok(m) if m.bytes() == &payload(left_tag, i as u64, N::USIZE)[..] => Ok(payload(tag, i as u64, N::USIZE)),
                        Ok(m) => Ok(m.bytes().to_vec()),
                        Err(e) => Err(e.to_string()),
                    };
                    log2.lock().unwrap().recv.push((k, i, r));
                }));
                while s.next().await.is_some() {}
                drop(s);
                if check_close && !indeterminate {
                    let r = tx.send(RecordId::from(total), Raw::<N>::tagged(my_tag, total as u64)).await;
                    log.lock().unwrap().past_end_send.push((k, r.map_err(|e| e.to_string())));
                    let r = rx.receive(RecordId::from(total)).await;
                    log.lock().unwrap().past_end_recv.push((k, r.map(|m| m.bytes().to_vec()).map_err(|e| e.to_string())));
                }
                log.lock().unwrap().tasks_done += 1;
            }));
        }
        return;
    }

    let (src, dst) = pairs[0];
    // one-way: sender task
    let send_tasks = c.get("send_style").and_then(Value::as_str) == Some("tasks");
    if send_tasks {
        // every record is sent from its own task (as the multi-threaded seq_join does); blocks of `active`
        // records are outstanding at a time
        let world = StdArc::clone(world);
        let log = StdArc::clone(log);
        let g = g.clone();
        handles.push(shuttle::future::spawn(async move {
            let tx = StdArc::new(world.gw(src, shard).get_mpc_sender::<Raw<N>>(&ChannelId::new(Role::all()[dst], g), tr, ch_active.try_into().unwrap()));
            let mut base = 0usize;
            while base < total {
                let end = (base + ch_active).min(total);
                let mut hs = Vec::new();
                for i in base..end {
                    let (tx, log) = (StdArc::clone(&tx), StdArc::clone(&log));
                    hs.push(shuttle::future::spawn(async move {
                        for _ in 0..yields_for(yield_seed, i) {
                            shuttle::future::yield_now().await;
                        }
                        if let Err(e) = tx.send(RecordId::from(i), mk::<N>(tag, i, poison)).await {
                            log.lock().unwrap().send_err.push((k, i, e.to_string()));
                        }
                    }));
                }
                for h in hs {
                    h.await.unwrap();
                }
                base = end;
            }
            if check_close && !indeterminate {
                let r = tx.send(RecordId::from(total), Raw::<N>::tagged(tag, total as u64)).await;
                log.lock().unwrap().past_end_send.push((k, r.map_err(|e| e.to_string())));
            }
            log.lock().unwrap().tasks_done += 1;
        }));
    } else {
        let world = StdArc::clone(world);
        let log = StdArc::clone(log);
        let g = g.clone();
        handles.push(shuttle::future::spawn(async move {
            let tx = world.gw(src, shard).get_mpc_sender::<Raw<N>>(&ChannelId::new(Role::all()[dst], g), tr, ch_active.try_into().unwrap());
            let (tx, log2) = (&tx, &log);
            let mut s = seq_join(window, stream::iter(0..total).map(move |i| async move {
                for _ in 0..yields_for(yield_seed, i) {
                    shuttle::future::yield_now().await;
                }
                if let Err(e) = tx.send(RecordId::from(i), mk::<N>(tag, i, poison)).await {
                    log2.lock().unwrap().send_err.push((k, i, e.to_string()));
                }
            }));
            while s.next().await.is_some() {}
            drop(s);
            if check_close && !indeterminate {
                let r = tx.send(RecordId::from(total), Raw::<N>::tagged(tag, total as u64)).await;
                log.lock().unwrap().past_end_send.push((k, r.map_err(|e| e.to_string())));
            }
            log.lock().unwrap().tasks_done += 1;
        }));
    }
    // one-way: receiver task, asks in a seeded order inside the window
    {
        let world = StdArc::clone(world);
        let log = StdArc::clone(log);
        handles.push(shuttle::future::spawn(async move {
            let rx = world.gw(dst, shard).get_mpc_receiver::<Raw<N>>(&ChannelId::new(Role::all()[src], g));
            let order = recv_order(total, ch_active, perm_seed);
            let (rx, log2) = (&rx, &log);
            let mut s = seq_join(window, stream::iter(order).map(move |i| async move {
                let r = rx.receive(RecordId::from(i)).await;
                log2.lock().unwrap().recv.push((k, i, r.map(|m| m.bytes().to_vec()).map_err(|e| e.to_string())));
            }));
            while s.next().await.is_some() {}
            drop(s);
            if check_close && !indeterminate {
                let r = rx.receive(RecordId::from(total)).await;
                log.lock().unwrap().past_end_recv.push((k, r.map(|m| m.bytes().to_vec()).map_err(|e| e.to_string())));
            }
            log.lock().unwrap().tasks_done += 1;
        }));
    }
}
