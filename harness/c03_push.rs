// C03 (recorded-intermediate side) — crafted batches pushed straight into the proof store.
//
// The three helpers record, through `DZKPUpgradedMaliciousContext::push`, the seven intermediates
// of `records x steps` multiplications of `w` bits each.  The intermediates are derived from a
// global assignment (x0..2, y0..2, p01,p12,p20 per bit position), so the three views are mutually
// consistent = an honest batch, whatever the values are.  The run is repeated with exactly one
// recorded bit flipped on one helper (fault F2): at least one helper must then reject.
//
// Segment widths include non-powers of two (packing with padding), several records per storage
// block, multi-block segments, several gates per batch, single-shot and per-record validation.

use std::{
    collections::BTreeMap,
    sync::{
        Arc as StdArc, Mutex as StdMutex,
        atomic::AtomicBool,
    },
};

use bitvec::prelude::{BitVec, Lsb0};
use futures::{TryStreamExt, stream, StreamExt};
use serde_json::{Value, json};

use crate::{
    error::Error,
    protocol::{
        RecordId,
        context::{
            Context, TEST_DZKP_STEPS, UpgradableContext,
            dzkp_validator::{DZKPValidator, Segment, SegmentEntry},
        },
    },
    test_fixture::{Runner, TestWorld},
    verif::{sim::*, world::*},
};

pub fn scenarios() -> Vec<&'static dyn Scenario> {
    vec![&PushScenario]
}

pub struct PushScenario;

const WIDTHS: [usize; 14] = [1, 2, 3, 5, 8, 13, 20, 32, 64, 100, 128, 256, 512, 768];

/// Global 9-bit assignment of one bit position: bits 0..2 = x0..x2, 3..5 = y0..y2, 6..8 = p01,p12,p20.
fn assignment(pattern: &str, combo: u64, seed: u64, step: usize, rec: usize, pos: usize) -> u16 {
    match pattern {
        "uniform" => (combo & 0x1ff) as u16,
        "ones" => 0x1ff,
        "zeros" => 0,
        // uniform inside a record, different between records
        "striped" => (fnv(fnv(seed, step as u64), rec as u64) >> 7 & 0x1ff) as u16,
        _ => (fnv(fnv(fnv(seed, step as u64), rec as u64), pos as u64) >> 11 & 0x1ff) as u16,
    }
}

/// The seven recorded bits of helper `h` for one position.
fn view(a: u16, h: usize) -> [bool; 7] {
    let x = |k: usize| a >> (k % 3) & 1 == 1;
    let y = |k: usize| a >> (3 + k % 3) & 1 == 1;
    let p = |k: usize| a >> (6 + k % 3) & 1 == 1;
    // what helper k computes and sends to its left neighbour
    let z = |k: usize| (x(k) & y(k)) ^ (x(k) & y(k + 1)) ^ (x(k + 1) & y(k)) ^ p(k + 2) ^ p(k);
    [x(h), x(h + 1), y(h), y(h + 1), p(h + 2), p(h), z(h + 1)]
}

#[derive(Clone)]
struct Flip {
    helper: usize,
    step: usize,
    record: usize,
    entry: usize,
    pos: usize,
}

fn entries(pattern: &str, combo: u64, seed: u64, step: usize, rec: usize, w: usize, h: usize, flip: Option<&Flip>) -> Vec<BitVec<u8, Lsb0>> {
    let mut e: Vec<BitVec<u8, Lsb0>> = (0..7).map(|_| BitVec::repeat(false, w)).collect();
    for pos in 0..w {
        let v = view(assignment(pattern, combo, seed, step, rec, pos), h);
        for k in 0..7 {
            e[k].set(pos, v[k]);
        }
    }
    if let Some(f) = flip {
        if f.helper == h && f.step == step && f.record == rec {
            let b = e[f.entry][f.pos];
            e[f.entry].set(f.pos, !b);
        }
    }
    e
}

type Res = BTreeMap<usize, Result<(), String>>;

fn run_once(p: &Value, spec: &SchedSpec, flip: Option<Flip>) -> (SimOutcome, Res) {
    let (w, records, steps, batched, max_mults) = (pu(p, "w"), pu(p, "records"), pu(p, "steps"), pb(p, "batched"), pu(p, "max_mults"));
    let pattern = ps(p, "pattern").to_string();
    let (combo, input_seed) = (pu64(p, "combo"), pu64(p, "input_seed"));
    let permuted = p.get("push_order").and_then(Value::as_str) == Some("perm");
    let knobs = &p["knobs"];
    let (active, read_size, world_seed) = (pu(knobs, "active"), pu(knobs, "read_size"), pu64(knobs, "world_seed"));
    let log: StdArc<StdMutex<Res>> = StdArc::new(StdMutex::new(BTreeMap::new()));
    let log2 = StdArc::clone(&log);
    let outcome = sim_async(spec, StdArc::new(AtomicBool::new(false)), move || {
        let (log, pattern, flip) = (StdArc::clone(&log2), pattern.clone(), flip.clone());
        async move {
            let world = TestWorld::new_with(&world_config(world_seed, active, read_size, None));
            let (log, pattern, flip) = (&log, &pattern, &flip);
            world
                .malicious((), |ctx, ()| async move {
                    let h = role_idx(ctx.role());
                    let v = ctx.set_total_records(records).dzkp_validator(TEST_DZKP_STEPS, max_mults);
                    let m = v.context();
                    let push_record = |i: usize| {
                        for s in 0..steps {
                            let e = entries(pattern, combo, input_seed, s, i, w, h, flip.as_ref());
                            let se = |k: usize| SegmentEntry::from_bitslice(e[k].as_bitslice());
                            let c = if steps == 1 { m.clone() } else { m.narrow(&format!("bit{s}")) };
                            c.push(RecordId::from(i), Segment::from_entries(se(0), se(1), se(2), se(3), se(4), se(5), se(6)));
                        }
                    };
                    let r: Result<(), Error> = if batched {
                        let push_record = &push_record;
                        v.validated_seq_join(stream::iter(0..records).map(|i| async move {
                            push_record(i);
                            Ok::<(), Error>(())
                        }))
                        .try_collect::<Vec<()>>()
                        .await
                        .map(|_| ())
                    } else {
                        // concurrent record tasks reach the proof store in any order: seeded permutation, per helper
                        let order: Vec<usize> = if permuted { Rng::sub(input_seed, 500 + h as u64).perm(records) } else { (0..records).collect() };
                        for i in order {
                            push_record(i);
                        }
                        v.validate().await
                    };
                    log.lock().unwrap().insert(h, r.map_err(|e| e.to_string()));
                })
                .await;
        }
    });
    let r = log.lock().unwrap().clone();
    (outcome, r)
}

impl Scenario for PushScenario {
    fn name(&self) -> &'static str {
        "c03_push"
    }

    fn generate(&self, seed: u64, tier: Tier) -> Value {
        let mut r = Rng::sub(seed, 3_11);
        let w = r.pick(&WIDTHS);
        let wp = if w < 256 { w.next_power_of_two() } else { w };
        // storage blocks of 256 multiplications per gate
        let max_blocks = if tier == Tier::Quick { 6 } else { 40 };
        let blocks = match r.below(4) {
            0 => 1,
            // powers of the recursion factors: 2 and 16 blocks compress to exactly 8^2 and 8^3 values after the first level
            1 => r.pick(&[2usize, 4, 8, 16, 32]).min(if tier == Tier::Quick { 16 } else { 40 }),
            _ => r.range(1, max_blocks),
        };
        let per_block = (256 / wp).max(1);
        let full = (blocks * 256).div_ceil(wp).max(1);
        // exactly filling blocks, one more, one less, or a ragged count
        let records = match r.below(4) {
            0 => full,
            1 => full + 1,
            2 => full.saturating_sub(1).max(1),
            _ => r.range(1, full + per_block),
        };
        let steps = r.pick(&[1usize, 1, 2, 3]);
        let batched = r.chance(1, 2);
        let max_mults = if batched {
            // several proof batches; batch sizes that do and do not fill storage blocks
            // at most 64 proof batches per run (each costs a few thousand scheduling steps)
            r.pick(&[1usize, 2, 4, 8, 16, 32, 64, 128, 256]).min(records.next_power_of_two()).max(records.div_ceil(64).next_power_of_two())
        } else {
            records.next_power_of_two()
        };
        let pattern = r.pick(&["random", "random", "uniform", "uniform", "striped", "ones", "zeros"]);
        let flip = if r.chance(2, 3) {
            let record = match r.below(5) {
                0 => 0,
                1 => records - 1,
                2 => (per_block * r.below(blocks + 1)).min(records - 1),
                _ => r.below(records),
            };
            json!({"helper": r.below(3), "step": r.below(steps), "record": record, "entry": r.below(7),
                   "pos": match r.below(4) { 0 => 0, 1 => w - 1, _ => r.below(w) }})
        } else {
            Value::Null
        };
        let est = 1500 + (records.div_ceil(max_mults) * 600) as u64;
        let mut p = json!({"w": w, "records": records, "steps": steps, "batched": batched, "max_mults": max_mults,
            "pattern": pattern, "combo": r.below(512), "input_seed": r.next_u64() >> 12, "flip": flip, "knobs": draw_knobs(&mut r),
            "push_order": if !batched && r.chance(1, 2) { "perm" } else { "asc" }});
        p["sched"] = SchedSpec::draw(&mut r, est, 4_000_000);
        p
    }

    fn exec(&self, p: &Value, explicit: Option<Vec<u32>>) -> RunRes {
        let (w, records, steps, batched, max_mults) = (pu(p, "w"), pu(p, "records"), pu(p, "steps"), pb(p, "batched"), pu(p, "max_mults"));
        let knobs = &p["knobs"];
        let pattern = ps(p, "pattern").to_string();
        let flip = match p.get("flip") {
            Some(f) if !f.is_null() => Some(Flip { helper: pu(f, "helper"), step: pu(f, "step"), record: pu(f, "record"), entry: pu(f, "entry"), pos: pu(f, "pos") }),
            _ => None,
        };
        if w == 0 || (w > 256 && w % 256 != 0) || w > 1024 || records == 0 || records > 20_000 || steps == 0 || steps > 4
            || !max_mults.is_power_of_two() || (!batched && max_mults < records) || records * w * steps > 4_000_000
            || !["random", "uniform", "striped", "ones", "zeros"].contains(&pattern.as_str())
            || !pu(knobs, "active").is_power_of_two() || pu(knobs, "active") < 2 || pu(knobs, "read_size") == 0
            || flip.as_ref().is_some_and(|f| f.helper > 2 || f.step >= steps || f.record >= records || f.entry > 6 || f.pos >= w)
        {
            return RunRes::invalid("push: plan");
        }
        let spec = SchedSpec::from_json(&p["sched"], explicit);
        let shape = format!("push w{w} r{records} s{steps} b{}x{max_mults} {pattern} {} f{}", u8::from(batched), p.get("push_order").and_then(Value::as_str).unwrap_or("asc"),
            flip.as_ref().map_or("-".to_string(), |f| f.entry.to_string()));

        // ---- honest batch: accepted by everyone ----
        let (o, res) = run_once(p, &spec, None);
        match o.class {
            "finished" => {}
            // the step cap is a harness resource bound, not a verdict on the code
            "stepcap" => return RunRes::inconclusive("stepcap", format!("step cap reached with {} proof batches", records.div_ceil(max_mults)), shape, Some(o)),
            "deadlock" => return RunRes::violation("dzkp_honest_no_progress", format!("{}: {}", o.class, truncate(&o.panic_msg.clone().unwrap_or_default(), 300)), shape, Some(o)),
            _ => return RunRes::violation("dzkp_honest_panic", format!("panic while proving an honest batch: {}", o.panic_msg.clone().unwrap_or_default()), shape, Some(o)),
        }
        for h in 0..3 {
            match res.get(&h) {
                Some(Ok(())) => {}
                Some(Err(e)) => return RunRes::violation("dzkp_honest_batch_rejected",
                    format!("helper {} rejected a consistent batch (w={w} records={records} steps={steps} pattern={pattern} combo={}): {e}", h + 1, pu64(p, "combo")), shape, Some(o)),
                None => return RunRes::violation("dzkp_no_result", format!("helper {} produced no result", h + 1), shape, Some(o)),
            }
        }
        let blocks_per_gate = {
            let wp = if w < 256 { w.next_power_of_two() } else { w };
            (records.min(max_mults) * wp).div_ceil(256)
        };
        let Some(f) = flip else {
            let mut r = RunRes::pass(shape, true, Some(o));
            r.probe("honest_batch_accepted", 1);
            r.probe(&format!("width_{w}"), 1);
            r.probe("proof_batches", if batched { records.div_ceil(max_mults) as u64 } else { 1 });
            r.probe("multi_gate_batch", u64::from(steps > 1));
            r.probe("pushed_in_permuted_order", u64::from(p.get("push_order").and_then(Value::as_str) == Some("perm")));
            r.probe("blocks_per_gate_ge_32", u64::from(blocks_per_gate >= 32));
            return r;
        };
        // ---- the same batch with one recorded bit flipped on one helper ----
        let (o2, res2) = run_once(p, &spec, Some(f.clone()));
        let all_ok = o2.class == "finished" && (0..3).all(|h| matches!(res2.get(&h), Some(Ok(()))));
        if all_ok {
            return RunRes::violation("dzkp_recorded_flip_accepted",
                format!("helper {} recorded entry {} of record {} step {} with bit {} flipped (w={w}, {records} records, batches of {max_mults}, {}) and all three helpers accepted the batch",
                    f.helper + 1, ["x_left", "x_right", "y_left", "y_right", "prss_left", "prss_right", "z_right"][f.entry], f.record, f.step, f.pos,
                    if batched { "validate_record" } else { "single validate" }),
                shape, Some(o2));
        }
        let mut r = RunRes::pass(shape, true, Some(o2.clone()));
        r.fault("F2_recorded_bit_flipped", 1);
        r.probe("flip_rejected", 1);
        r.probe(&format!("flip_entry_{}", f.entry), 1);
        r.probe(&format!("flip_outcome_{}", o2.class), 1);
        r.probe(&format!("width_{w}"), 1);
        r.probe("flip_in_later_batch", u64::from(batched && f.record >= max_mults));
        let rejecting: Vec<usize> = (0..3).filter(|h| matches!(res2.get(h), Some(Err(_)))).collect();
        r.extra = json!({"rejecting_helpers": rejecting, "flip_helper": f.helper});
        r
    }
}
