// C10 — encrypted reports decrypt only if untouched; bad input never crashes a helper.
//
// System: the input path of a helper as Query::execute runs it: body stream (seeded chunking) ->
// LengthDelimitedStream<EncryptedHybridReport> -> decrypt(KeyRegistry).
// Faults (F7, corruption at rest of client input): every single-bit flip at every byte offset of one
// encrypted record, every truncation length, zero-length / garbage records, wrong or missing key id,
// corrupted framing (length prefix), torn last record.

use std::panic::{AssertUnwindSafe, catch_unwind};

use bytes::Bytes;
use futures::{StreamExt, TryStreamExt};
use rand::{Rng as _, SeedableRng, rngs::StdRng};
use serde_json::{Value, json};

use crate::{
    ff::boolean_array::{BA3, BA8},
    helpers::{LengthDelimitedStream, stream::TryFlattenItersExt},
    hpke::{KeyPair, KeyRegistry},
    report::hybrid::{EncryptedHybridReport, HybridReport, IndistinguishableHybridReport},
    secret_sharing::IntoShares,
    test_fixture::hybrid::TestHybridRecord,
    verif::{
        c17_parsers::{Plan, PlanStream, drain},
        sim::*,
    },
};

pub fn scenarios() -> Vec<&'static dyn Scenario> {
    vec![&ReportScenario]
}

pub struct ReportScenario;

type Enc = EncryptedHybridReport<BA8, BA3>;

fn domain(r: &mut Rng, len: usize, with_nul: bool) -> String {
    // ASCII incl. non-printable characters; NUL (the field delimiter of the metadata encoding) only when the
    // plan says so
    let mut s: Vec<u8> = (0..len).map(|_| (1 + r.below(127)) as u8).collect();
    if with_nul && !s.is_empty() {
        let k = r.below(s.len());
        s[k] = 0;
    }
    String::from_utf8(s).unwrap()
}

impl Scenario for ReportScenario {
    fn name(&self) -> &'static str {
        "c10_reports"
    }

    fn generate(&self, seed: u64, _tier: Tier) -> Value {
        let mut r = Rng::sub(seed, 10_01);
        let n = r.range(1, 6);
        let mut recs = Vec::new();
        for _ in 0..n {
            if r.chance(1, 2) {
                recs.push(json!({"kind": "imp", "mk": r.next_u64() >> 1, "bk": r.below(256), "key_id": r.below(3)}));
            } else {
                let ts = r.pick(&[0u64, 1, 1_234_567, u64::MAX >> 1, u64::MAX]);
                let dlen = r.pick(&[0usize, 1, 2, 20, 100, 255]);
                recs.push(json!({"kind": "conv", "mk": r.next_u64() >> 1, "value": r.below(8), "key_id": r.below(3),
                    "domain_len": dlen, "domain_nul": r.chance(1, 8), "timestamp": ts, "eps_bits": r.pick(&[0u64, 0x3ff0_0000_0000_0000, 0x7ff8_0000_0000_0000, 0x7ff0_0000_0000_0000, 0xfff0_0000_0000_0000, 1, 0x4014_0000_0000_0000]),
                    "sens_bits": r.pick(&[0u64, 0x3ff0_0000_0000_0000, 0x7ff8_0000_0000_0001, 0x0000_0000_0000_0001])}));
            }
        }
        json!({"records": recs, "sample": r.below(n), "crypto_seed": r.next_u64() >> 12, "chunk_seed": r.next_u64() >> 12, "garbage": r.range(4, 24)})
    }

    fn exec(&self, p: &Value, _explicit: Option<Vec<u32>>) -> RunRes {
        let recs = p["records"].as_array().cloned().unwrap_or_default();
        let sample = pu(p, "sample");
        if recs.is_empty() || sample >= recs.len() || recs.iter().any(|x| !["imp", "conv"].contains(&ps(x, "kind")) || pu(x, "key_id") > 2) {
            return RunRes::invalid("reports: plan");
        }
        let mut r = Rng::sub(pu64(p, "chunk_seed"), 0);
        let mut rng = StdRng::seed_from_u64(pu64(p, "crypto_seed"));
        let registry = KeyRegistry::<KeyPair>::random(3, &mut rng);
        let other_registry = KeyRegistry::<KeyPair>::random(3, &mut rng);
        // one run = one freshly encrypted sample record whose every bit flip / truncation is tried: distinct by the sample's
        // plaintext attributes and the ciphertext (crypto seed)
        let shape = format!("reports n{} sample-{} k{} d{} {:08x}", recs.len(), ps(&recs[sample], "kind"), pu(&recs[sample], "key_id"),
            recs[sample].get("domain_len").and_then(Value::as_u64).unwrap_or(0),
            fnv_bytes(fnv(0xcbf2_9ce4_8422_2325, pu64(p, "crypto_seed")), recs[sample].to_string().as_bytes()) as u32);

        // helper-1 shares of every record, encrypted as the report collector does
        let mut plain: Vec<HybridReport<BA8, BA3>> = Vec::new();
        let mut enc: Vec<Vec<u8>> = Vec::new();
        let mut nul_rejected = 0u64;
        for x in &recs {
            let key_id = pu(x, "key_id") as u8;
            let rec = if ps(x, "kind") == "imp" {
                TestHybridRecord::TestImpression { match_key: pu64(x, "mk"), breakdown_key: pu(x, "bk") as u32, key_id }
            } else {
                let mut dom = domain(&mut r, pu(x, "domain_len"), pb(x, "domain_nul"));
                let (ts, eps, sens) = (pu64(x, "timestamp"), f64::from_bits(pu64(x, "eps_bits")), f64::from_bits(pu64(x, "sens_bits")));
                // a metadata value the constructor refuses is not a report; anything it accepts must round-trip
                if crate::report::hybrid_info::HybridConversionInfo::new(key_id, &dom, ts, eps, sens).is_err() {
                    nul_rejected += 1;
                    dom = dom.replace('\0', "x");
                }
                TestHybridRecord::TestConversion { match_key: pu64(x, "mk"), value: pu(x, "value") as u32, key_id, conversion_site_domain: dom, timestamp: ts, epsilon: eps, sensitivity: sens }
            };
            let [h1, _h2, _h3]: [HybridReport<BA8, BA3>; 3] = rec.share_with(&mut rng);
            match h1.encrypt(key_id, &registry, &mut rng) {
                Ok(b) => {
                    enc.push(b);
                    plain.push(h1);
                }
                Err(e) => return RunRes::violation("report_encrypt_failed", format!("honest encryption failed: {e}"), shape, None),
            }
        }
        let same = |a: &HybridReport<BA8, BA3>, b: &HybridReport<BA8, BA3>| -> bool {
            // shares and metadata: compare through the indistinguishable form + a re-encryption-independent debug form
            let (ia, ib): (IndistinguishableHybridReport<BA8, BA3>, IndistinguishableHybridReport<BA8, BA3>) = (a.clone().into(), b.clone().into());
            ia == ib && format!("{a:?}") == format!("{b:?}")
        };
        let mut res_probes: Vec<(String, u64)> = Vec::new();
        let mut mutations = 0u64;
        let mut rejected = 0u64;

        // one decryption attempt; Ok(Some(report)) / Ok(None)=rejected / Err(panic text)
        let attempt = |bytes: Vec<u8>, reg: &KeyRegistry<KeyPair>| -> Result<Option<HybridReport<BA8, BA3>>, String> {
            catch_unwind(AssertUnwindSafe(|| Enc::try_from(Bytes::from(bytes)).ok().and_then(|e| e.decrypt(reg).ok())))
                .map_err(|pl| pl.downcast_ref::<String>().cloned().or_else(|| pl.downcast_ref::<&str>().map(|s| (*s).to_string())).unwrap_or_default())
        };

        // (a) untouched records decrypt to exactly the original
        for (i, e) in enc.iter().enumerate() {
            match attempt(e.clone(), &registry) {
                Ok(Some(d)) if same(&d, &plain[i]) => {}
                Ok(Some(d)) => return RunRes::violation("report_roundtrip_differs", format!("record {i} decrypts to {d:?}, expected {:?}", plain[i]), shape, None),
                Ok(None) => return RunRes::violation("report_roundtrip_rejected", format!("untouched record {i} ({} bytes, {:?}) was rejected", e.len(), recs[i]), shape, None),
                Err(m) => return RunRes::violation("report_parser_panic", format!("untouched record {i} made the decryptor panic: {m}"), shape, None),
            }
            // a different private key must not open it
            match attempt(e.clone(), &other_registry) {
                Ok(None) => {}
                Ok(Some(_)) => return RunRes::violation("report_opened_with_wrong_key", format!("record {i} decrypted under a different key"), shape, None),
                Err(m) => return RunRes::violation("report_parser_panic", format!("wrong-key decryption panicked: {m}"), shape, None),
            }
            match attempt(e.clone(), &KeyRegistry::<KeyPair>::empty()) {
                Ok(None) => {}
                Ok(Some(_)) => return RunRes::violation("report_opened_with_wrong_key", "decrypted with an empty key registry".into(), shape, None),
                Err(m) => return RunRes::violation("report_parser_panic", format!("missing-key decryption panicked: {m}"), shape, None),
            }
        }
        // (b) exhaustive single-bit flips and truncations of the sample record
        let s = &enc[sample];
        let judge = |what: String, bytes: Vec<u8>, mutations: &mut u64, rejected: &mut u64| -> Option<RunRes> {
            *mutations += 1;
            match attempt(bytes, &registry) {
                Ok(None) => {
                    *rejected += 1;
                    None
                }
                Ok(Some(d)) => Some(RunRes::violation(
                    if same(&d, &plain[sample]) { "report_accepted_after_alteration_same_content" } else { "report_accepted_altered" },
                    format!("{what} of a {}-byte {} record was accepted and decrypted to {d:?}", s.len(), ps(&recs[sample], "kind")), shape.clone(), None)),
                Err(m) => Some(RunRes::violation(panic_class(&m), format!("{what} of a {}-byte {} record made the parser/decryptor panic: {m}", s.len(), ps(&recs[sample], "kind")), shape.clone(), None)),
            }
        };
        for off in 0..s.len() {
            for bit in 0..8 {
                let mut b = s.clone();
                b[off] ^= 1 << bit;
                if let Some(v) = judge(format!("flipping bit {bit} of byte {off}"), b, &mut mutations, &mut rejected) {
                    return v;
                }
            }
        }
        for len in 0..s.len() {
            if let Some(v) = judge(format!("truncation to {len} bytes"), s[..len].to_vec(), &mut mutations, &mut rejected) {
                return v;
            }
        }
        // appended bytes, garbage records of many lengths, all-zero / all-ones records
        for k in 0..pu(p, "garbage") {
            let len = match k % 4 {
                0 => r.below(8),
                1 => r.range(60, 160),
                2 => s.len(),
                _ => r.below(400),
            };
            let bytes = match k % 5 {
                0 => vec![0u8; len],
                1 => vec![0xffu8; len],
                _ => r.bytes(len),
            };
            mutations += 1;
            match attempt(bytes.clone(), &registry) {
                Ok(None) => rejected += 1,
                Ok(Some(d)) => return RunRes::violation("report_accepted_altered", format!("a {len}-byte garbage record decrypted to {d:?}"), shape, None),
                Err(m) => return RunRes::violation(panic_class(&m), format!("a {len}-byte garbage record ({:02x?}..) made the parser panic: {m}", &bytes[..bytes.len().min(4)]), shape, None),
            }
        }
        // (c) through the framing, as Query::execute consumes the body: good stream, then damaged streams
        let mut body = Vec::new();
        for e in &enc {
            body.extend_from_slice(&(e.len() as u16).to_le_bytes());
            body.extend_from_slice(e);
        }
        let run_stream = |bytes: &[u8], r: &mut Rng| -> Result<Result<Vec<HybridReport<BA8, BA3>>, String>, String> {
            let mut plan = Vec::new();
            let mut pos = 0;
            while pos < bytes.len() {
                let l = match r.below(4) {
                    0 => 1,
                    1 => r.range(0, 7),
                    _ => r.range(1, 200),
                }
                .min(bytes.len() - pos);
                if r.chance(1, 6) {
                    plan.push(Plan::Pending);
                }
                plan.push(Plan::Chunk(bytes[pos..pos + l].to_vec()));
                pos += l;
            }
            let reg = &registry;
            catch_unwind(AssertUnwindSafe(|| {
                let s = LengthDelimitedStream::<Enc, _>::new(PlanStream::new(plan)).map_err(Into::<crate::error::Error>::into).try_flatten_iters();
                let (items, _) = drain(Box::pin(s), 10_000);
                let mut out = Vec::new();
                for it in items {
                    match it {
                        Ok(e) => match e.decrypt(reg) {
                            Ok(d) => out.push(d),
                            Err(e) => return Err(e.to_string()),
                        },
                        Err(e) => return Err(e.to_string()),
                    }
                }
                Ok(out)
            }))
            .map_err(|pl| pl.downcast_ref::<String>().cloned().or_else(|| pl.downcast_ref::<&str>().map(|s| (*s).to_string())).unwrap_or_default())
        };
        match run_stream(&body, &mut r) {
            Ok(Ok(v)) if v.len() == plain.len() && v.iter().zip(plain.iter()).all(|(a, b)| same(a, b)) => {}
            Ok(other) => return RunRes::violation("report_stream_roundtrip", format!("well-formed body of {} records parsed to {:?}", plain.len(), other.map(|v| v.len())), shape, None),
            Err(m) => return RunRes::violation("report_parser_panic", format!("well-formed body made the input path panic: {m}"), shape, None),
        }
        let mut damaged: Vec<(String, Vec<u8>)> = Vec::new();
        damaged.push(("zero-length record appended".into(), [body.clone(), vec![0, 0]].concat()));
        damaged.push(("zero-length record first".into(), [vec![0, 0], body.clone()].concat()));
        damaged.push(("torn last record".into(), body[..body.len() - 1 - r.below(body.len().min(40))].to_vec()));
        for _ in 0..6 {
            let mut b = body.clone();
            let off = r.below(b.len());
            b[off] ^= 1 << r.below(8);
            damaged.push((format!("bit flip at body offset {off}"), b));
        }
        {
            let mut b = body.clone();
            b[0] ^= 1 << r.below(8); // length prefix of the first record
            damaged.push(("first length prefix flipped".into(), b));
            let short = (r.range(1, 60) as u16).to_le_bytes();
            damaged.push(("short record".into(), [short.to_vec(), r.bytes(u16::from_le_bytes(short) as usize)].concat()));
        }
        for (what, bytes) in damaged {
            mutations += 1;
            match run_stream(&bytes, &mut r) {
                Ok(Err(_)) => rejected += 1,
                Ok(Ok(v)) => {
                    // accepted: then every record must be one of the originals, untouched (e.g. a flipped bit may
                    // only have hit nothing) - with a damaged body that is an alteration that went unnoticed
                    return RunRes::violation("report_stream_accepted_damaged_body", format!("{what}: the damaged body was accepted with {} records", v.len()), shape, None);
                }
                Err(m) => return RunRes::violation(panic_class(&m), format!("{what} made the input path panic: {m}"), shape, None),
            }
        }
        res_probes.push(("nul_domain_rejected_at_construction".into(), nul_rejected));
        res_probes.push(("mutations".into(), mutations));
        res_probes.push(("rejected".into(), rejected));
        res_probes.push(("bitflips_exhaustive_bytes".into(), s.len() as u64));
        let mut res = RunRes::pass(shape, true, None);
        for (k, v) in res_probes {
            res.probe(&k, v);
        }
        res.fault("F7_input_corruption", mutations);
        res
    }
}

/// One class per panic site so that each is tracked separately.
fn panic_class(msg: &str) -> &'static str {
    if msg.contains("not enough delimiters") {
        "report_parser_panic_missing_delimiter"
    } else if msg.contains("incorrect length") {
        "report_parser_panic_info_length_assert"
    } else if msg.contains("index out of bounds") || msg.contains("out of range") {
        "report_parser_panic_index"
    } else {
        "report_parser_panic"
    }
}
