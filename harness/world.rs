// Shared plumbing for scenarios that run real protocol code on a TestWorld under the simulator.

use std::{
    collections::BTreeMap,
    future::Future,
    sync::{
        Arc as StdArc, Mutex as StdMutex,
        atomic::{AtomicBool, Ordering as AO},
    },
};

use serde_json::{Value, json};

use crate::{
    helpers::{
        GatewayConfig,
        in_memory_config::{DynStreamInterceptor, passthrough},
    },
    test_fixture::TestWorldConfig,
    verif::sim::*,
};

/// Per-node (role index, shard index) outcome table, filled in from inside the run the moment a
/// node's future resolves, so that it survives a deadlock or a panic of other nodes.
pub type NodeLog<T> = StdArc<StdMutex<BTreeMap<(usize, usize), T>>>;

pub fn node_log<T>() -> NodeLog<T> {
    StdArc::new(StdMutex::new(BTreeMap::new()))
}

pub fn world_config(seed: u64, active: usize, read_size: usize, interceptor: Option<DynStreamInterceptor>) -> TestWorldConfig {
    TestWorldConfig {
        gateway_config: GatewayConfig {
            active: active.try_into().unwrap(),
            read_size: read_size.try_into().unwrap(),
            ..Default::default()
        },
        seed,
        stream_interceptor: interceptor.unwrap_or_else(passthrough),
        ..Default::default()
    }
}

/// Draw the gateway knobs of a run (documented constraints respected: active is a power of two).
pub fn draw_knobs(r: &mut Rng) -> Value {
    json!({
        "active": r.pick(&[2usize, 4, 8, 16, 32]),
        "read_size": r.pick(&[1usize, 3, 16, 64, 256, 2048, 4096]),
        "world_seed": r.next_u64() >> 12,
    })
}

/// Run an async scenario body once under the simulator.
pub fn sim_async<F, Fut>(spec: &SchedSpec, cutoff: StdArc<AtomicBool>, f: F) -> SimOutcome
where
    F: Fn() -> Fut + Send + Sync + 'static,
    Fut: Future<Output = ()>,
{
    run_sim(spec, cutoff, move || shuttle::future::block_on(f()))
}

/// A world shared by the node tasks of one simulated execution (which shuttle runs one at a time on a single OS thread).
/// Every task keeps a clone for as long as it uses anything borrowed from the world, so the borrow handed out by `get` is
/// valid although its lifetime is erased; the world is dropped, inside the execution, when the last clone goes.
pub struct SharedWorld<T>(StdArc<T>);
unsafe impl<T> Send for SharedWorld<T> {}
unsafe impl<T> Sync for SharedWorld<T> {}
impl<T> SharedWorld<T> {
    pub fn new(t: T) -> Self {
        Self(StdArc::new(t))
    }
    pub fn share(&self) -> Self {
        Self(StdArc::clone(&self.0))
    }
    /// # Safety
    /// The caller keeps a clone of `self` alive for as long as the returned borrow (or anything derived from it) is in use.
    pub unsafe fn get(&self) -> &'static T {
        unsafe { &*StdArc::as_ptr(&self.0) }
    }
}

pub fn role_idx(r: crate::helpers::Role) -> usize {
    match r {
        crate::helpers::Role::H1 => 0,
        crate::helpers::Role::H2 => 1,
        crate::helpers::Role::H3 => 2,
    }
}

/// Dispatch on a run-time shard count to a block generic over the sharding scheme type `$W`.
macro_rules! with_shards {
    ($s:expr, $W:ident => $body:expr) => {
        match $s {
            1 => {
                type $W = crate::test_fixture::WithShards<1>;
                $body
            }
            2 => {
                type $W = crate::test_fixture::WithShards<2>;
                $body
            }
            3 => {
                type $W = crate::test_fixture::WithShards<3>;
                $body
            }
            5 => {
                type $W = crate::test_fixture::WithShards<5>;
                $body
            }
            n => panic!("harness: unsupported shard count {n}"),
        }
    };
}
pub(crate) use with_shards;
