// C19 — resharding moves each record to its chosen shard exactly once, in an order that is a
// deterministic function of inputs and picks (identical on all helpers); errors fail the operation.
//
// System: real reshard_iter / reshard_try_stream / reshard_aad on 3 helpers x S shards of a TestWorld.

use std::{
    collections::VecDeque,
    pin::Pin,
    sync::{
        Arc as StdArc, Mutex as StdMutex,
        atomic::{AtomicBool, Ordering as AO},
    },
    task::{Context as TaskContext, Poll},
};

use futures::Stream;
use serde_json::{Value, json};
use typenum::U8;

use crate::{
    error::Error,
    helpers::Direction,
    protocol::{
        RecordId,
        context::{Context, ShardedContext, reshard_iter, reshard_try_stream},
    },
    query::verif_h6::reshard_aad,
    sharding::{ShardConfiguration, ShardIndex},
    test_fixture::{Runner, TestWorld},
    verif::{
        msg::Raw,
        sim::*,
        world::{self, *},
    },
};

pub fn scenarios() -> Vec<&'static dyn Scenario> {
    vec![&ReshardScenario]
}

type K = Raw<U8>;

fn rec(origin: usize, idx: usize) -> K {
    K::tagged(19, (origin * 100_000 + idx) as u64)
}

/// Input stream with a configurable size hint, planned `Pending`s and an optional failing element.
struct HintStream {
    items: VecDeque<Result<K, Error>>,
    hint: usize,
    pend_mask: u64,
    polls: u64,
}

impl Stream for HintStream {
    type Item = Result<K, Error>;
    fn poll_next(mut self: Pin<&mut Self>, cx: &mut TaskContext<'_>) -> Poll<Option<Self::Item>> {
        self.polls += 1;
        if self.pend_mask & (1 << (self.polls % 64)) != 0 && self.polls < 200 {
            let p = self.polls;
            self.pend_mask &= !(1 << (p % 64));
            cx.waker().wake_by_ref();
            return Poll::Pending;
        }
        Poll::Ready(self.items.pop_front())
    }
    fn size_hint(&self) -> (usize, Option<usize>) {
        (0, Some(self.hint))
    }
}

pub struct ReshardScenario;

impl Scenario for ReshardScenario {
    fn name(&self) -> &'static str {
        "c19_reshard"
    }

    fn generate(&self, seed: u64, tier: Tier) -> Value {
        let mut r = Rng::sub(seed, 19_01);
        let shards = r.pick(&[1usize, 2, 2, 3, 3, 5]);
        let maxn = if tier == Tier::Quick { 40 } else { 200 };
        let picker = r.pick(&["table", "all_to_one", "round_robin", "all_stay", "skewed", "prss"]);
        let api = r.pick(&["iter", "try_stream", "aad"]);
        let mut lens = Vec::new();
        let mut picks = Vec::new();
        let target = r.below(shards);
        for o in 0..shards {
            let n = match r.below(5) {
                0 => 0,
                1 => r.range(0, 2),
                _ => r.range(0, maxn),
            };
            lens.push(n);
            let p: Vec<usize> = (0..n)
                .map(|i| match picker {
                    "all_to_one" => target,
                    "round_robin" => i % shards,
                    "all_stay" => o,
                    "skewed" => if r.chance(9, 10) { target } else { r.below(shards) },
                    _ => r.below(shards),
                })
                .collect();
            picks.push(p);
        }
        // input fault on one node (only for the fallible APIs)
        let fault = if api != "iter" && r.chance(1, 4) {
            let o = r.below(shards);
            let kind = r.pick(&["err", "long"]);
            json!({"helper": r.below(3), "shard": o, "kind": kind, "pos": r.below(lens[o] + 1)})
        } else if shards > 1 && picker != "prss" && r.chance(1, 5) {
            // transport fault: one chunk of one shard-to-shard channel arrives cut short by 1..7 bytes (records are 8 bytes)
            let o = r.below(shards);
            let d = (o + 1 + r.below(shards - 1)) % shards;
            // ... or with its first record replaced by bytes that do not decode
            json!({"helper": r.below(3), "shard": d, "origin": o, "kind": "transport", "pos": 0, "cut": r.range(1, 7), "corrupt": r.chance(1, 2)})
        } else {
            Value::Null
        };
        // caller error: one record is sent to a shard that does not exist - must be loud, never silently kept or dropped
        let bad_pick = if fault.is_null() && picker == "table" && r.chance(1, 12) {
            let o = r.below(shards);
            if lens[o] > 0 { let i = r.below(lens[o]); picks[o][i] = shards + r.below(2); json!([o, i]) } else { Value::Null }
        } else { Value::Null };
        let hint_extra = if api == "iter" { 0 } else { r.pick(&[0usize, 0, 1, 7]) };
        let total: usize = lens.iter().sum();
        let est = 400 + total as u64 * 60 * 3;
        let mut p = json!({"shards": shards, "picker": picker, "api": api, "lens": lens, "picks": picks, "fault": fault,
            "hint_extra": hint_extra, "pend_mask": if api == "iter" { 0 } else { r.next_u64() & r.next_u64() & 0xffff_ffff },
            "knobs": draw_knobs(&mut r), "bad_pick": bad_pick});
        p["sched"] = SchedSpec::draw(&mut r, est, 1_500_000);
        p
    }

    fn exec(&self, p: &Value, explicit: Option<Vec<u32>>) -> RunRes {
        let shards = pu(p, "shards");
        if ![1usize, 2, 3, 5].contains(&shards) {
            return RunRes::invalid("reshard: shard count");
        }
        match shards {
            1 => exec_1(p, explicit),
            2 => exec_2(p, explicit),
            3 => exec_3(p, explicit),
            _ => exec_5(p, explicit),
        }
    }
}

type NodeRes = Result<Vec<Vec<u8>>, String>;

macro_rules! make_exec {
    ($name:ident, $n:literal) => {
        fn $name(p: &Value, explicit: Option<Vec<u32>>) -> RunRes {
    let shards = pu(p, "shards");
    let picker = ps(p, "picker").to_string();
    let api = ps(p, "api").to_string();
    let lens = pvec(p, "lens");
    let picks: Vec<Vec<usize>> = p["picks"].as_array().map(|a| a.iter().map(|x| x.as_array().unwrap().iter().map(|y| y.as_u64().unwrap() as usize).collect()).collect()).unwrap_or_default();
    let fault = p["fault"].clone();
    let hint_extra = pu(p, "hint_extra");
    let pend_mask = pu64(p, "pend_mask");
    let bad_pick: Option<(usize, usize)> = p.get("bad_pick").and_then(Value::as_array).filter(|a| a.len() == 2).map(|a| (a[0].as_u64().unwrap_or(0) as usize, a[1].as_u64().unwrap_or(0) as usize));
    if lens.len() != shards || picks.len() != shards
        || (0..shards).any(|o| picks[o].len() < lens[o] || picks[o].iter().enumerate().any(|(i, d)| (*d >= shards) != (bad_pick == Some((o, i)) && i < lens[o])))
        || (bad_pick.is_some() && (!fault.is_null() || picker == "prss"))
        || !["iter", "try_stream", "aad"].contains(&api.as_str())
        || (!fault.is_null() && ps(&fault, "kind") != "transport" && (api == "iter" || pu(&fault, "shard") >= shards || pu(&fault, "helper") > 2 || pu(&fault, "pos") > lens[pu(&fault, "shard")]))
        || (!fault.is_null() && ps(&fault, "kind") == "transport" && (pu(&fault, "shard") >= shards || pu(&fault, "origin") >= shards || pu(&fault, "origin") == pu(&fault, "shard") || pu(&fault, "helper") > 2 || pu(&fault, "cut") == 0 || pu(&fault, "cut") > 7))
    {
        return RunRes::invalid("reshard: plan");
    }
    let knobs = &p["knobs"];
    let (active, read_size, world_seed) = (pu(knobs, "active"), pu(knobs, "read_size"), pu64(knobs, "world_seed"));
    if !active.is_power_of_two() || active < 2 || read_size == 0 {
        return RunRes::invalid("reshard: knobs");
    }
    let spec = SchedSpec::from_json(&p["sched"], explicit);
    let total: usize = lens.iter().sum();
    let shape = format!("reshard s{shards} {picker} {api} n{total} f{} h{hint_extra}", if fault.is_null() { "-".into() } else { ps(&fault, "kind").to_string() });
    let log: NodeLog<NodeRes> = node_log();
    let log2 = StdArc::clone(&log);
    let transport_site = if !fault.is_null() && ps(&fault, "kind") == "transport" {
        Some(crate::verif::faults::Site {
            chan: crate::verif::faults::ChanKey { kind: "shard", src: pu(&fault, "origin"), dst: pu(&fault, "shard"), shard: pu(&fault, "helper"), gate: "*".into() },
            chunk: 0, offset: 0, pattern: if fault.get("corrupt").and_then(Value::as_bool) == Some(true) { "poison:8".into() } else { format!("trunc:{}", pu(&fault, "cut")) }, stream_off: None,
        })
    } else {
        None
    };
    let (tamper, interceptor) = crate::verif::faults::tamper(transport_site);
    let (lens2, picks2, fault2, api2, picker2) = (lens.clone(), picks.clone(), fault.clone(), api.clone(), picker.clone());

    let outcome = sim_async(&spec, StdArc::new(AtomicBool::new(false)), move || {
        let log = StdArc::clone(&log2);
        let (lens, picks, fault, api, picker) = (lens2.clone(), StdArc::new(picks2.clone()), fault2.clone(), api2.clone(), picker2.clone());
        let interceptor = interceptor.clone();
        async move {
            let world = TestWorld::<crate::test_fixture::WithShards<$n>>::with_shards(&world_config(world_seed, active, read_size, Some(interceptor)));
            let (lens, picks, fault, api, picker, log) = (&lens, &picks, &fault, &api, &picker, &log);
            world
                .semi_honest(Vec::<()>::new().into_iter(), |ctx, _| async move {
                    let me = usize::from(ctx.shard_id());
                    let h = role_idx(ctx.role());
                    let n = lens[me];
                    let picks_c = StdArc::clone(picks);
                    let use_prss = picker == "prss";
                    let pick = move |c: crate::protocol::context::ShardedSemiHonestContext<'_>, rid: RecordId, _k: &K| -> ShardIndex {
                        if use_prss {
                            c.pick_shard(rid, Direction::Left)
                        } else {
                            ShardIndex::from(picks_c[me][usize::from(rid)] as u32)
                        }
                    };
                    let mut items: VecDeque<Result<K, Error>> = (0..n).map(|i| Ok(rec(me, i))).collect();
                    let mut hint = n + hint_extra;
                    if !fault.is_null() && ps(fault, "kind") != "transport" && pu(fault, "helper") == h && pu(fault, "shard") == me {
                        let pos = pu(fault, "pos");
                        if ps(fault, "kind") == "err" {
                            items.insert(pos, Err(Error::Internal));
                        } else {
                            // more elements than the size hint promises
                            hint = n;
                            items.push_back(Ok(rec(me, n)));
                            items.push_back(Ok(rec(me, n + 1)));
                        }
                    }
                    let r: Result<Vec<K>, Error> = match api.as_str() {
                        "iter" => reshard_iter(ctx.clone(), items.into_iter().map(Result::unwrap).collect::<Vec<_>>(), pick).await,
                        "try_stream" => reshard_try_stream(ctx.clone(), HintStream { items, hint, pend_mask, polls: 0 }, pick).await,
                        _ => {
                            // the tag is what gets routed; the data stays put
                            let picks_c = StdArc::clone(picks);
                            let s = futures::StreamExt::map(HintStream { items, hint, pend_mask, polls: 0 }, |x| x.map(|k| (k.clone(), k)));
                            reshard_aad(ctx.clone(), HintedMap { inner: Box::pin(s), hint }, move |c: crate::protocol::context::ShardedSemiHonestContext<'_>, rid: RecordId, _a: &K| {
                                if use_prss { c.pick_shard(rid, Direction::Left) } else { ShardIndex::from(picks_c[me][usize::from(rid)] as u32) }
                            })
                            .await
                            .map(|(kept, tags)| {
                                // kept data must be exactly this shard's own input, in order
                                assert!(kept.len() <= n + 2);
                                tags
                            })
                        }
                    };
                    log.lock().unwrap().insert((h, me), r.map(|v| v.iter().map(|k| k.bytes().to_vec()).collect()).map_err(|e| e.to_string()));
                })
                .await;
        }
    });

    // ---------------- oracle ----------------
    let l = log.lock().unwrap();
    let expected = |d: usize| -> Vec<Vec<u8>> {
        let mut v = Vec::new();
        for o in 0..shards {
            for i in 0..lens[o] {
                if picks[o][i] == d {
                    v.push(rec(o, i).bytes().to_vec());
                }
            }
        }
        v
    };
    if let Some((o, i)) = bad_pick {
        // a record addressed to a shard that does not exist: any loud outcome is fine, a clean completion is not
        let all_ok = (0..3).all(|h| (0..shards).all(|d| matches!(l.get(&(h, d)), Some(Ok(_)))));
        if outcome.class == "finished" && all_ok {
            let held: usize = (0..shards).map(|d| l.get(&(0, d)).and_then(|r| r.as_ref().ok()).map_or(0, Vec::len)).sum();
            return RunRes::violation("reshard_out_of_range_pick_accepted",
                format!("record {i} of shard {o} was addressed to shard {} of {shards}; every node returned Ok ({held} of {total} records held on helper 1)", picks[o][i]), shape, Some(outcome));
        }
        let mut res = RunRes::pass(shape, true, Some(outcome));
        res.probe("out_of_range_pick_was_loud", 1);
        return res;
    }
    let transport_fired = !tamper.log.lock().unwrap().fired.is_empty();
    let is_transport = !fault.is_null() && ps(&fault, "kind") == "transport";
    // a transport fault that never met a chunk (no record travelled on that channel) is no fault at all
    let faulty = if fault.is_null() || (is_transport && !transport_fired) { None } else { Some((pu(&fault, "helper"), pu(&fault, "shard"))) };
    for h in 0..3 {
        let helper_faulty = faulty.is_some_and(|f| f.0 == h);
        for d in 0..shards {
            match l.get(&(h, d)) {
                Some(Ok(v)) => {
                    if faulty == Some((h, d)) {
                        return RunRes::violation("reshard_error_swallowed", format!("helper {h} shard {d}: input {} but reshard returned Ok with {} records", ps(&fault, "kind"), v.len()), shape, Some(outcome));
                    }
                    if picker == "prss" {
                        // destinations are PRSS-drawn: checked by conservation below
                        continue;
                    }
                    let want = expected(d);
                    if *v != want {
                        let class = if helper_faulty { "reshard_partial_ok_after_error" } else if { let mut a = v.clone(); a.sort(); let mut b = want.clone(); b.sort(); a == b } { "reshard_order" } else { "reshard_wrong_records" };
                        return RunRes::violation(class, format!("helper {h} shard {d}: got {} records, expected {}; first difference at {:?}", v.len(), want.len(),
                            v.iter().zip(want.iter()).position(|(a, b)| a != b)), shape, Some(outcome));
                    }
                }
                Some(Err(e)) => {
                    if !helper_faulty {
                        return RunRes::violation("reshard_spurious_error", format!("helper {h} shard {d} failed without any fault: {e}"), shape, Some(outcome));
                    }
                }
                None => {
                    if !helper_faulty {
                        return RunRes::violation("reshard_no_progress", format!("helper {h} shard {d} never returned ({}): {}", outcome.class, truncate(&outcome.panic_msg.clone().unwrap_or_default(), 200)), shape, Some(outcome));
                    }
                }
            }
        }
        if picker == "prss" && !helper_faulty {
            // conservation: multiset over shards unchanged
            let mut all: Vec<Vec<u8>> = (0..shards).flat_map(|d| l.get(&(h, d)).and_then(|r| r.clone().ok()).unwrap_or_default()).collect();
            all.sort();
            let mut want: Vec<Vec<u8>> = (0..shards).flat_map(|o| (0..lens[o]).map(move |i| rec(o, i).bytes().to_vec())).collect();
            want.sort();
            if all != want {
                return RunRes::violation("reshard_wrong_records", format!("helper {h}: multiset over shards changed ({} vs {} records)", all.len(), want.len()), shape, Some(outcome));
            }
        }
    }
    if let Some((h, d)) = faulty {
        match l.get(&(h, d)) {
            Some(Err(_)) => {}
            other => {
                return RunRes::violation("reshard_error_swallowed", format!("helper {h} shard {d} with failing input did not return an error: {:?} ({})", other.map(|r| r.as_ref().map(Vec::len)), outcome.class), shape, Some(outcome));
            }
        }
    }
    match (outcome.class, faulty.is_some()) {
        ("finished", _) | ("deadlock", true) => {}
        (c, _) => {
            return RunRes::violation(if c == "panic" { "reshard_panic" } else { "reshard_no_progress" }, format!("{c}: {}", truncate(&outcome.panic_msg.clone().unwrap_or_default(), 300)), shape, Some(outcome));
        }
    }
    let mut res = RunRes::pass(shape, outcome.decisions > 0 && total > 0, Some(outcome));
    res.probe("empty_input_shards", lens.iter().filter(|n| **n == 0).count() as u64);
    res.probe("input_faults", u64::from(faulty.is_some()));
    if is_transport {
        res.fault(if fault.get("corrupt").and_then(Value::as_bool) == Some(true) { "F3_transport_record_undecodable" } else { "F3_transport_chunk_cut_short" }, u64::from(transport_fired));
    } else if faulty.is_some() {
        res.fault("F6_input_stream_error", 1);
    }
    res
}
    };
}
make_exec!(exec_1, 1);
make_exec!(exec_2, 2);
make_exec!(exec_3, 3);
make_exec!(exec_5, 5);

/// keeps the size hint through a `map`
struct HintedMap<S> {
    inner: Pin<Box<S>>,
    hint: usize,
}
impl<S: Stream> Stream for HintedMap<S> {
    type Item = S::Item;
    fn poll_next(mut self: Pin<&mut Self>, cx: &mut TaskContext<'_>) -> Poll<Option<Self::Item>> {
        self.inner.as_mut().poll_next(cx)
    }
    fn size_hint(&self) -> (usize, Option<usize>) {
        (0, Some(self.hint))
    }
}

