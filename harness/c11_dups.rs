// C11 — a report submitted twice in one query is rejected wherever the copies land; pairwise distinct
// inputs are never rejected for duplication.
//
// System: the real query::runner::hybrid::Query::execute on 3 helpers x S shards with per-helper
// encrypted inputs (real HPKE, real length-delimited framing, real reshard-by-tag).  A run is cut off
// (F8) once every node has either returned or sent its first message of a step after ReshardByTag.

use std::{
    collections::{BTreeMap, BTreeSet},
    sync::{
        Arc as StdArc, Mutex as StdMutex,
        atomic::{AtomicBool, Ordering as AO},
    },
};

use rand::{SeedableRng, rngs::StdRng};
use serde_json::{Value, json};

use crate::{
    ff::boolean_array::{BA3, BA8, BA32},
    helpers::{
        BodyStream, HelperIdentity,
        in_memory_config::{DynStreamInterceptor, InspectContext},
        query::{HybridQueryParams, QuerySize},
    },
    hpke::{KeyPair, KeyRegistry},
    protocol::context::Context,
    query::verif_h6::HybridQuery,
    report::hybrid::HybridReport,
    secret_sharing::IntoShares,
    sharding::ShardConfiguration,
    sync::Arc,
    test_fixture::{Runner, TestWorld, WithShards, hybrid::TestHybridRecord},
    verif::{sim::*, world::*},
};

pub fn scenarios() -> Vec<&'static dyn Scenario> {
    vec![&DupScenario]
}

pub struct DupScenario;

impl Scenario for DupScenario {
    fn name(&self) -> &'static str {
        "c11_dups"
    }

    fn generate(&self, seed: u64, tier: Tier) -> Value {
        let mut r = Rng::sub(seed, 11_01);
        let shards = r.pick(&[1usize, 2, 2, 3, 3, 5]);
        let n = r.range(shards.max(2), if tier == Tier::Quick { 14 } else { 40 });
        // placement of the n distinct reports: every shard gets at least one (a query size of 0 cannot be expressed)
        let mut place: Vec<usize> = (0..n).map(|i| if i < shards { i } else { r.below(shards) }).collect();
        r.shuffle(&mut place);
        // duplicates: (index of the duplicated report, shard whose input receives the copy, position in that input)
        let ndup = if r.chance(1, 3) { 0 } else { r.range(1, 3) };
        let dups: Vec<Value> = (0..ndup).map(|_| json!({"of": r.below(n), "shard": r.below(shards), "pos": r.below(n + 1)})).collect();
        // which helpers receive the duplicated input (bit mask, at least one)
        let helpers = if r.chance(1, 2) { 7 } else { r.range(1, 7) };
        // transport fault on the tag exchange: the stream that carries the copy's tag from the shard it was submitted to towards
        // the shard that owns it is cut short by 8 bytes (the copy is then the last record of that shard's input)
        let tag_cut = shards > 1 && ndup > 0 && r.chance(1, 3);
        let mut dups = dups;
        if tag_cut {
            dups.truncate(1);
            dups[0]["pos"] = json!(n + 1);
        }
        json!({"shards": shards, "n": n, "place": place, "dups": dups, "dup_helpers": helpers, "crypto_seed": r.next_u64() >> 12, "tag_cut": tag_cut,
            "knobs": draw_knobs(&mut r), "sched": SchedSpec::draw(&mut r, 30_000, 20_000_000)})
    }

    fn exec(&self, p: &Value, explicit: Option<Vec<u32>>) -> RunRes {
        match pu(p, "shards") {
            1 => exec_1(p, explicit),
            2 => exec_2(p, explicit),
            3 => exec_3(p, explicit),
            5 => exec_5(p, explicit),
            _ => RunRes::invalid("dups: shards"),
        }
    }
}

#[derive(Default)]
struct Progress {
    /// nodes (helper, shard) that sent a message of a step after ReshardByTag
    past: BTreeSet<(usize, usize)>,
    returned: BTreeMap<(usize, usize), Result<usize, String>>,
    /// was the node past the tag exchange when it returned an error?
    err_after_attribution_started: Vec<(usize, usize)>,
}

fn hidx(h: HelperIdentity) -> usize {
    if h == HelperIdentity::ONE { 0 } else if h == HelperIdentity::TWO { 1 } else { 2 }
}

macro_rules! make_exec {
    ($name:ident, $n:literal) => {
        fn $name(p: &Value, explicit: Option<Vec<u32>>) -> RunRes {
            let n = pu(p, "n");
            let place = pvec(p, "place");
            let dups: Vec<(usize, usize, usize)> = p["dups"].as_array().cloned().unwrap_or_default().iter().map(|d| (pu(d, "of"), pu(d, "shard"), pu(d, "pos"))).collect();
            let dup_helpers = pu(p, "dup_helpers");
            let knobs = &p["knobs"];
            let (active, read_size, world_seed) = (pu(knobs, "active"), pu(knobs, "read_size"), pu64(knobs, "world_seed"));
            if n == 0 || place.len() < n || place.iter().any(|s| *s >= $n) || (0..$n).any(|s| !place[..n].contains(&s)) || dups.iter().any(|d| d.0 >= n || d.1 >= $n)
                || dup_helpers == 0 || dup_helpers > 7 || !active.is_power_of_two() || active < 2 || read_size == 0
            {
                return RunRes::invalid("dups: plan");
            }
            let spec = SchedSpec::from_json(&p["sched"], explicit);
            let shape = format!("dups s{} n{n} d{} h{dup_helpers}", $n, dups.len());
            // ---- inputs: per helper, per shard list of encrypted records ----
            let mut rng = StdRng::seed_from_u64(pu64(p, "crypto_seed"));
            let registry = StdArc::new(KeyRegistry::<KeyPair>::random(1, &mut rng));
            let mut enc: [Vec<Vec<u8>>; 3] = [Vec::new(), Vec::new(), Vec::new()];
            for i in 0..n {
                let rec = if i % 2 == 0 {
                    TestHybridRecord::TestImpression { match_key: 1000 + (i / 2) as u64, breakdown_key: (i % 200) as u32, key_id: 0 }
                } else {
                    TestHybridRecord::TestConversion { match_key: 1000 + (i / 2) as u64, value: (i % 7) as u32, key_id: 0, conversion_site_domain: "meta.com".into(), timestamp: 100 + i as u64, epsilon: 1.0, sensitivity: 0.5 }
                };
                let shares: [HybridReport<BA8, BA3>; 3] = rec.share_with(&mut rng);
                for h in 0..3 {
                    enc[h].push(shares[h].encrypt(0, registry.as_ref(), &mut rng).expect("encrypt"));
                }
            }
            let mut inputs: Vec<Vec<Vec<Vec<u8>>>> = vec![vec![Vec::new(); $n]; 3]; // [helper][shard] -> records
            for h in 0..3 {
                for i in 0..n {
                    inputs[h][place[i]].push(enc[h][i].clone());
                }
                if dup_helpers & (1 << h) != 0 {
                    for (of, shard, pos) in &dups {
                        let v = &mut inputs[h][*shard];
                        let at = (*pos).min(v.len());
                        v.insert(at, enc[h][*of].clone());
                    }
                }
            }
            // expected shard of every duplicated report on helper h: tag = first 16 bytes of the match-key
            // ciphertext (record layout: event type, 32-byte encapsulated key, ciphertext), shard = tag mod S
            let routed_rec = |rec: &Vec<u8>| -> usize {
                let mut t = [0u8; 16];
                t.copy_from_slice(&rec[33..49]);
                (u128::from_le_bytes(t) % $n) as usize
            };
            let routed = |h: usize, of: usize| -> usize { routed_rec(&enc[h][of]) };
            // F3: per helper that received the copy, cut 8 bytes off the end of the tag stream (copy's shard -> owner shard)
            let tag_cut = p.get("tag_cut").and_then(Value::as_bool) == Some(true) && !dups.is_empty();
            let mut cut_sites: Vec<crate::verif::faults::Site> = Vec::new();
            let mut cut_on: BTreeMap<usize, usize> = BTreeMap::new(); // helper -> owner shard whose incoming tag stream is cut
            if tag_cut {
                let (of, s, _) = dups[0];
                for h in 0..3 {
                    if dup_helpers & (1 << h) == 0 { continue; }
                    let o = routed(h, of);
                    if o == s { continue; }
                    let len = 16 * inputs[h][s].iter().filter(|rec| routed_rec(rec) == o).count();
                    if len == 0 { continue; }
                    cut_sites.push(crate::verif::faults::Site {
                        chan: crate::verif::faults::ChanKey { kind: "shard", src: s, dst: o, shard: h, gate: "~reshard_by_tag".into() },
                        chunk: 0, offset: 0, pattern: "trunc:8".into(), stream_off: Some(len - 1),
                    });
                    cut_on.insert(h, o);
                }
            }
            let (tamper, _unused) = crate::verif::faults::tamper_many(cut_sites);
            let tamper2 = StdArc::clone(&tamper);
            let prog = StdArc::new(StdMutex::new(Progress::default()));
            let cutoff = StdArc::new(AtomicBool::new(false));
            let (prog2, cutoff2) = (StdArc::clone(&prog), StdArc::clone(&cutoff));
            let inputs2 = inputs.clone();
            let outcome = sim_async(&spec, StdArc::clone(&cutoff), move || {
                let (prog, cutoff, inputs, registry, tamper) = (StdArc::clone(&prog2), StdArc::clone(&cutoff2), inputs2.clone(), StdArc::clone(&registry), StdArc::clone(&tamper2));
                async move {
                    let (prog_i, cutoff_i) = (StdArc::clone(&prog), StdArc::clone(&cutoff));
                    let interceptor: DynStreamInterceptor = Arc::new(move |ctx: &InspectContext, data: &mut Vec<u8>| {
                        crate::helpers::in_memory_config::StreamInterceptor::peek(&*tamper, ctx, data);
                        let (node, gate) = match ctx {
                            InspectContext::MpcMessage { shard, source, gate, .. } => ((hidx(*source), shard.map_or(0, usize::from)), gate.as_ref().to_string()),
                            InspectContext::ShardMessage { helper, source, gate, .. } => ((hidx(*helper), usize::from(*source)), gate.as_ref().to_string()),
                        };
                        if !gate.contains("reshard_by_tag") {
                            let mut p = prog_i.lock().unwrap();
                            p.past.insert(node);
                            if p.past.len() + p.returned.keys().filter(|k| !p.past.contains(k)).count() >= 3 * $n {
                                cutoff_i.store(true, AO::SeqCst);
                            }
                        }
                    });
                    let world = TestWorld::<WithShards<$n>>::with_shards(&world_config(world_seed, active, read_size, Some(interceptor)));
                    let (inputs, registry, prog, cutoff) = (&inputs, &registry, &prog, &cutoff);
                    world
                        .malicious(Vec::<()>::new().into_iter(), |ctx, _| async move {
                            let node = (role_idx(ctx.role()), usize::from(ctx.shard_id()));
                            let recs = &inputs[node.0][node.1];
                            let mut body = Vec::new();
                            for e in recs {
                                body.extend_from_slice(&(e.len() as u16).to_le_bytes());
                                body.extend_from_slice(e);
                            }
                            let q = HybridQuery::<_, BA32, KeyRegistry<KeyPair>>::new(HybridQueryParams { with_dp: 0, ..Default::default() }, StdArc::clone(registry));
                            let r = q.execute(ctx, QuerySize::try_from(recs.len()).unwrap(), BodyStream::from(body)).await;
                            let mut p = prog.lock().unwrap();
                            if r.is_err() && p.past.contains(&node) {
                                p.err_after_attribution_started.push(node);
                            }
                            p.returned.insert(node, r.map(|v| v.len()).map_err(|e| e.to_string()));
                            if p.past.len() + p.returned.keys().filter(|k| !p.past.contains(k)).count() >= 3 * $n {
                                cutoff.store(true, AO::SeqCst);
                            }
                        })
                        .await;
                }
            });
            // ---------------- oracle ----------------
            let pr = prog.lock().unwrap();
            match outcome.class {
                "cutoff" | "finished" | "deadlock" => {}
                "stepcap" => return RunRes::inconclusive("step_cap", "step cap before every node passed the duplicate check".into(), shape, Some(outcome)),
                _ => return RunRes::violation("dups_panic", format!("panic: {}", outcome.panic_msg.clone().unwrap_or_default()), shape, Some(outcome)),
            }
            let is_dup_err = |r: &Result<usize, String>| matches!(r, Err(e) if e.contains("Duplicate bytes"));
            let cut_fired = !tamper.log.lock().unwrap().fired.is_empty();
            // helpers whose tag stream was cut: the owner shard must fail the query (any error) before attribution starts
            for (h, o) in cut_on.iter().filter(|_| cut_fired) {
                match pr.returned.get(&(*h, *o)) {
                    Some(Err(_)) if !pr.err_after_attribution_started.contains(&(*h, *o)) => {}
                    other => {
                        return RunRes::violation("duplicate_not_rejected_after_tag_stream_fault",
                            format!("helper {} shard {o}: the stream carrying the copy's tag arrived cut short, yet the shard {} ({})", h + 1,
                                match other { Some(r) => format!("returned {r:?}"), None => "went on to attribution".into() }, outcome.class), shape, Some(outcome));
                    }
                }
            }
            for h in 0..3 {
                if cut_fired && cut_on.contains_key(&h) {
                    continue; // judged above; with a broken stream the kind of error is not prescribed
                }
                let gets_dups = dup_helpers & (1 << h) != 0 && !dups.is_empty();
                let expected: BTreeSet<usize> = if gets_dups { dups.iter().map(|d| routed(h, d.0)).collect() } else { BTreeSet::new() };
                for s in 0..$n {
                    let r = pr.returned.get(&(h, s));
                    let got_dup_err = r.is_some_and(is_dup_err);
                    if got_dup_err && !expected.contains(&s) {
                        return RunRes::violation(if gets_dups { "duplicate_error_on_wrong_shard" } else { "distinct_input_rejected_as_duplicate" },
                            format!("helper {} shard {s} reported a duplicate; shards expected to: {expected:?} (n {n}, dups {dups:?})", h + 1), shape, Some(outcome));
                    }
                    if expected.contains(&s) {
                        if !got_dup_err {
                            return RunRes::violation("duplicate_not_rejected",
                                format!("helper {} received {dups:?} (copies routed to shard {s}) but that shard {}", h + 1,
                                    match r { Some(r) => format!("returned {r:?}"), None => format!("never returned an error ({})", outcome.class) }), shape, Some(outcome));
                        }
                        if pr.err_after_attribution_started.contains(&(h, s)) {
                            return RunRes::violation("duplicate_rejected_after_attribution_started", format!("helper {} shard {s} had already sent messages of a later step when it rejected the duplicate", h + 1), shape, Some(outcome));
                        }
                    }
                    if let Some(Err(e)) = r {
                        // with duplicates the helpers' inputs are inconsistent and anything may fail afterwards; only
                        // all-distinct inputs must not fail at this stage
                        if dups.is_empty() && !is_dup_err(&Err(e.clone())) && !e.contains("zero records") {
                            return RunRes::violation("dups_spurious_error", format!("helper {} shard {s} failed with: {e}", h + 1), shape, Some(outcome));
                        }
                    }
                }
            }
            let mut res = RunRes::pass(shape, outcome.decisions > 0, Some(outcome.clone()));
            res.probe("duplicate_runs", u64::from(!dups.is_empty()));
            res.probe("distinct_runs", u64::from(dups.is_empty()));
            res.probe("copies_in_other_shard_input", dups.iter().filter(|d| d.1 != place[d.0]).count() as u64);
            res.probe(&format!("outcome_{}", outcome.class), 1);
            res.fault("F7_duplicated_records", dups.len() as u64);
            res.fault("F3_tag_stream_cut_short", u64::from(cut_fired));
            res.fault("F8_cutoff_after_duplicate_check", u64::from(outcome.class == "cutoff"));
            res
        }
    };
}
make_exec!(exec_1, 1);
make_exec!(exec_2, 2);
make_exec!(exec_3, 3);
make_exec!(exec_5, 5);
