// C17 — byte-stream parsers are independent of chunking and total on arbitrary input.
//
// The "network" is a plan stream: a list of chunks (empty ones included), `Pending`s and an optional
// mid-stream error.  For short byte strings every one of the 2^(n-1) chunkings is executed; longer
// ones get seeded chunkings.  Oracle: an independent reference parse of the concatenated bytes.

use std::{
    collections::VecDeque,
    num::NonZeroUsize,
    pin::Pin,
    task::{Context, Poll, RawWaker, RawWakerVTable, Waker},
};

use bytes::Bytes;
use futures::Stream;
use generic_array::ArrayLength;
use serde_json::{Value, json};
use typenum::{U1, U2, U3, U4, U5, U8};

use crate::{
    error::BoxError,
    ff::{Fp31, Fp32BitPrime, Serializable},
    helpers::{BufferedBytesStream, LengthDelimitedStream, RecordsStream, SingleRecordStream},
    verif::{msg::Raw, sim::*},
};

pub fn scenarios() -> Vec<&'static dyn Scenario> {
    vec![&ParserScenario]
}

#[derive(Clone, Debug)]
pub enum Plan {
    Chunk(Vec<u8>),
    Pending,
    Err,
}

pub struct PlanStream {
    items: VecDeque<Plan>,
    pub pendings: usize,
}

impl PlanStream {
    pub fn new(items: Vec<Plan>) -> Self {
        Self { items: items.into(), pendings: 0 }
    }
}

impl Stream for PlanStream {
    type Item = Result<Bytes, BoxError>;
    fn poll_next(mut self: Pin<&mut Self>, cx: &mut Context<'_>) -> Poll<Option<Self::Item>> {
        match self.items.pop_front() {
            None => Poll::Ready(None),
            Some(Plan::Chunk(c)) => Poll::Ready(Some(Ok(Bytes::from(c)))),
            Some(Plan::Pending) => {
                self.pendings += 1;
                cx.waker().wake_by_ref();
                Poll::Pending
            }
            Some(Plan::Err) => Poll::Ready(Some(Err("injected transport error".into()))),
        }
    }
}

pub fn noop_waker() -> Waker {
    const VT: RawWakerVTable = RawWakerVTable::new(|_| RawWaker::new(std::ptr::null(), &VT), |_| {}, |_| {}, |_| {});
    unsafe { Waker::from_raw(RawWaker::new(std::ptr::null(), &VT)) }
}

struct CountingWaker(std::sync::atomic::AtomicUsize);
impl std::task::Wake for CountingWaker {
    fn wake(self: std::sync::Arc<Self>) {
        self.0.fetch_add(1, std::sync::atomic::Ordering::SeqCst);
    }
    fn wake_by_ref(self: &std::sync::Arc<Self>) {
        self.0.fetch_add(1, std::sync::atomic::Ordering::SeqCst);
    }
}

thread_local! {
    /// set by `drain` when a stream returned `Pending` although nobody had arranged to wake the task (a real task would hang)
    pub static LOST_WAKEUP: std::cell::Cell<bool> = const { std::cell::Cell::new(false) };
    /// route the planned chunks through the transport's `BodyStream` wrapper
    pub static VIA_BODY: std::cell::Cell<bool> = const { std::cell::Cell::new(false) };
}

/// The byte source of a run: the plan itself, or the plan behind the real `BodyStream` wrapper (what parsers are fed in the helper).
pub fn source(plan: &[Plan]) -> Pin<Box<dyn Stream<Item = Result<Bytes, BoxError>> + Send>> {
    if VIA_BODY.with(std::cell::Cell::get) {
        Box::pin(crate::helpers::BodyStream::from_bytes_stream(PlanStream::new(plan.to_vec())))
    } else {
        Box::pin(PlanStream::new(plan.to_vec()))
    }
}

/// Drive a stream to its end (or `max` items) the way an executor would: poll again after a `Pending` only because the waker
/// was invoked (the plan's own `Pending` wakes at once); a `Pending` without any wake-up is recorded in `LOST_WAKEUP`.
pub fn drain<S: Stream + Unpin>(mut s: S, max: usize) -> (Vec<S::Item>, bool) {
    let counter = std::sync::Arc::new(CountingWaker(std::sync::atomic::AtomicUsize::new(0)));
    let w = Waker::from(std::sync::Arc::clone(&counter));
    let mut cx = Context::from_waker(&w);
    let mut out = Vec::new();
    let mut spins = 0usize;
    loop {
        let before = counter.0.load(std::sync::atomic::Ordering::SeqCst);
        match Pin::new(&mut s).poll_next(&mut cx) {
            Poll::Ready(Some(x)) => {
                out.push(x);
                if out.len() >= max {
                    return (out, false);
                }
            }
            Poll::Ready(None) => return (out, true),
            Poll::Pending => {
                if counter.0.load(std::sync::atomic::Ordering::SeqCst) == before {
                    LOST_WAKEUP.with(|f| f.set(true));
                    return (out, false);
                }
                spins += 1;
                if spins > 100_000 {
                    return (out, false);
                }
            }
        }
    }
}

/// A length-delimited record whose conversion fails when it starts with 0xEE.
#[derive(Debug, PartialEq, Eq, Clone)]
pub struct Rec(pub Vec<u8>);
impl TryFrom<Bytes> for Rec {
    type Error = BoxError;
    fn try_from(b: Bytes) -> Result<Self, BoxError> {
        if b.first() == Some(&0xEE) { Err("poisoned record".into()) } else { Ok(Rec(b.to_vec())) }
    }
}

/// Turn a chunking (cut positions bitmask or explicit lengths) into a plan.
fn plan_from_lengths(bytes: &[u8], lens: &[usize], extras: &mut Rng, decorate: bool, err_at: Option<usize>) -> Vec<Plan> {
    let mut plan = Vec::new();
    let mut pos = 0;
    for (k, l) in lens.iter().enumerate() {
        if Some(k) == err_at {
            plan.push(Plan::Err);
            return plan;
        }
        if decorate {
            match extras.below(6) {
                0 => plan.push(Plan::Pending),
                1 => plan.push(Plan::Chunk(Vec::new())),
                _ => {}
            }
        }
        let l = (*l).min(bytes.len() - pos);
        plan.push(Plan::Chunk(bytes[pos..pos + l].to_vec()));
        pos += l;
    }
    if pos < bytes.len() {
        plan.push(Plan::Chunk(bytes[pos..].to_vec()));
    }
    if err_at.is_some_and(|e| e >= lens.len()) {
        plan.push(Plan::Err);
    } else if decorate && extras.chance(1, 4) {
        plan.push(Plan::Chunk(Vec::new()));
    }
    plan
}

fn bytes_before_err(plan: &[Plan]) -> (usize, bool) {
    let mut n = 0;
    for p in plan {
        match p {
            Plan::Chunk(c) => n += c.len(),
            Plan::Err => return (n, true),
            Plan::Pending => {}
        }
    }
    (n, false)
}

pub struct ParserScenario;

const KINDS: [&str; 7] = ["rec_single_raw", "rec_batch_raw", "rec_single_fp32", "rec_batch_fp31", "ld", "buffered", "ld_bytes"];

impl Scenario for ParserScenario {
    fn name(&self) -> &'static str {
        "c17_parse"
    }

    fn generate(&self, seed: u64, tier: Tier) -> Value {
        let mut r = Rng::sub(seed, 17_01);
        let kind = r.pick(&KINDS);
        let w = r.pick(&[1usize, 2, 3, 4, 5, 8]);
        let exhaustive = r.chance(1, 2);
        let max_exh = if tier == Tier::Quick { 11 } else { 14 };
        // the byte string
        let bytes: Vec<u8> = match kind {
            "ld" | "ld_bytes" => {
                let nrec = if exhaustive { r.range(0, 4) } else { r.range(0, 12) };
                let mut b = Vec::new();
                for k in 0..nrec {
                    let len = if exhaustive { r.pick(&[0usize, 1, 2, 3]) } else { r.pick(&[0usize, 1, 2, 3, 5, 17, 79, 80, 81, 255, 256, 300]) };
                    b.extend_from_slice(&(len as u16).to_le_bytes());
                    let mut body = r.bytes(len);
                    if len > 0 {
                        body[0] = if kind == "ld" && r.chance(1, 12) { 0xEE } else { k as u8 };
                    }
                    b.extend_from_slice(&body);
                }
                if r.chance(1, 4) && !b.is_empty() {
                    let cut = r.below(b.len());
                    b.truncate(cut);
                }
                if exhaustive {
                    b.truncate(max_exh);
                }
                b
            }
            _ => {
                let n = if exhaustive { r.range(0, max_exh) } else { r.range(0, 200) };
                let mut b = r.bytes(n);
                if kind == "rec_batch_fp31" {
                    for x in &mut b {
                        *x = if r.chance(1, 40) { 31 + (*x % 200) } else { *x % 31 };
                    }
                }
                if kind == "rec_single_fp32" {
                    for (i, x) in b.iter_mut().enumerate() {
                        if i % 4 == 3 && !r.chance(1, 30) {
                            *x &= 0x7f;
                        } else if i % 4 == 3 {
                            *x = 0xff;
                        }
                    }
                }
                b
            }
        };
        let chunkings = if exhaustive { 0 } else { r.range(4, 24) };
        json!({"kind": kind, "w": w, "bytes": bytes, "exhaustive": exhaustive, "chunkings": chunkings,
               "buf": r.range(1, 20), "chunk_seed": r.next_u64() >> 12, "with_errors": r.chance(1, 3)})
    }

    fn exec(&self, p: &Value, _explicit: Option<Vec<u32>>) -> RunRes {
        let kind = ps(p, "kind").to_string();
        let w = pu(p, "w");
        let bytes: Vec<u8> = pvec(p, "bytes").into_iter().map(|x| x as u8).collect();
        let exhaustive = pb(p, "exhaustive");
        let with_errors = pb(p, "with_errors");
        let buf = pu(p, "buf");
        if !KINDS.contains(&kind.as_str()) || ![1usize, 2, 3, 4, 5, 8].contains(&w) || buf == 0 || (exhaustive && bytes.len() > 16) {
            return RunRes::invalid("parse: plan");
        }
        let mut r = Rng::sub(pu64(p, "chunk_seed"), 0);
        let shape = format!("parse {kind} w{w} n{} x{}", bytes.len(), u8::from(exhaustive));
        // the list of chunkings (as length lists)
        let mut lens_list: Vec<Vec<usize>> = Vec::new();
        let n = bytes.len();
        if exhaustive {
            let cuts = n.saturating_sub(1);
            for mask in 0..(1u32 << cuts) {
                let mut lens = Vec::new();
                let mut start = 0;
                for c in 0..cuts {
                    if mask & (1 << c) != 0 {
                        lens.push(c + 1 - start);
                        start = c + 1;
                    }
                }
                lens.push(n - start);
                lens_list.push(lens);
            }
        } else {
            for _ in 0..pu(p, "chunkings") {
                let mut lens = Vec::new();
                let mut pos = 0;
                let style = r.below(4);
                while pos < n {
                    let l = match style {
                        0 => 1,
                        1 => r.range(1, 2 * w + 1),
                        2 => r.range(1, n - pos),
                        _ => r.range(0, 9),
                    }
                    .min(n - pos);
                    lens.push(l);
                    pos += l;
                }
                lens_list.push(lens);
            }
            lens_list.push(vec![n]);
        }
        let mut executed = 0u64;
        let mut pend = 0u64;
        let mut errs_injected = 0u64;
        let mut via_body_runs = 0u64;
        for (ci, lens) in lens_list.iter().enumerate() {
            // plain, decorated (empty chunks + Pending), and optionally with a mid-stream error
            let mut variants: Vec<Vec<Plan>> = vec![plan_from_lengths(&bytes, lens, &mut r, false, None)];
            if !exhaustive || ci % 3 == 0 {
                variants.push(plan_from_lengths(&bytes, lens, &mut r, true, None));
            }
            if with_errors && (!exhaustive || ci % 5 == 0) {
                let at = r.below(lens.len() + 1);
                variants.push(plan_from_lengths(&bytes, lens, &mut r, true, Some(at)));
                errs_injected += 1;
            }
            for (vi, plan) in variants.into_iter().enumerate() {
                executed += 1;
                pend += plan.iter().filter(|x| matches!(x, Plan::Pending)).count() as u64;
                // every other execution feeds the parser through the transport's BodyStream wrapper
                let via_body = (ci + vi) % 2 == 1;
                via_body_runs += u64::from(via_body);
                VIA_BODY.with(|f| f.set(via_body));
                LOST_WAKEUP.with(|f| f.set(false));
                let verdict = std::panic::catch_unwind(std::panic::AssertUnwindSafe(|| run_one(&kind, w, buf, &bytes, &plan)));
                if LOST_WAKEUP.with(std::cell::Cell::get) {
                    let mut res = RunRes::violation("parser_lost_wakeup",
                        format!("the stream returned Pending although the byte source was ready and no wake-up had been arranged (a task would hang){}; plan {}", if via_body { " [through BodyStream]" } else { "" }, describe(&plan)), shape, None);
                    res.extra = json!({"plan": describe(&plan), "via_body": via_body});
                    return res;
                }
                match verdict {
                    Ok(Ok(())) => {}
                    Ok(Err((class, detail))) => {
                        let mut res = RunRes::violation(class, format!("{detail}; plan {}", describe(&plan)), shape, None);
                        res.extra = json!({"plan": describe(&plan)});
                        return res;
                    }
                    Err(pl) => {
                        let msg = pl.downcast_ref::<String>().cloned().or_else(|| pl.downcast_ref::<&str>().map(|s| (*s).to_string())).unwrap_or_default();
                        return RunRes::violation("parser_panic", format!("parser panicked: {msg}; plan {}", describe(&plan)), shape, None);
                    }
                }
            }
        }
        let mut res = RunRes::pass(shape, n > 1, None);
        res.probe("chunkings_executed", executed);
        res.probe("pending_injected", pend);
        res.probe("exhaustive_streams", u64::from(exhaustive));
        res.probe("through_body_stream", via_body_runs);
        res.fault("F4_chunkings", executed);
        res.fault("F3_midstream_error", errs_injected);
        res
    }
}

fn describe(plan: &[Plan]) -> String {
    plan.iter()
        .map(|p| match p {
            Plan::Chunk(c) => format!("{}", c.len()),
            Plan::Pending => "P".into(),
            Plan::Err => "E".into(),
        })
        .collect::<Vec<_>>()
        .join(",")
}

type V = Result<(), (&'static str, String)>;

fn run_one(kind: &str, w: usize, buf: usize, bytes: &[u8], plan: &[Plan]) -> V {
    macro_rules! sized {
        ($f:ident) => {
            match w {
                1 => $f::<U1>(bytes, plan),
                2 => $f::<U2>(bytes, plan),
                3 => $f::<U3>(bytes, plan),
                4 => $f::<U4>(bytes, plan),
                5 => $f::<U5>(bytes, plan),
                _ => $f::<U8>(bytes, plan),
            }
        };
    }
    match kind {
        "rec_single_raw" => sized!(rec_single_raw),
        "rec_batch_raw" => sized!(rec_batch_raw),
        "rec_single_fp32" => rec_fallible::<Fp32BitPrime>(bytes, plan, false),
        "rec_batch_fp31" => rec_fallible::<Fp31>(bytes, plan, true),
        "ld" | "ld_bytes" => ld(bytes, plan),
        _ => buffered(bytes, plan, buf),
    }
}

/// Common judgement for record streams: `got` are the flattened records (as bytes) followed by the
/// terminal status.
fn judge_records(got: &[Vec<u8>], ended_with_err: bool, clean_end: bool, bytes: &[u8], plan: &[Plan], w: usize, first_bad_record: Option<usize>) -> V {
    let (avail, injected) = bytes_before_err(plan);
    let full = avail / w;
    // reference: records 0..full (up to the first undeserialisable one)
    let good = first_bad_record.map_or(full, |b| b.min(full));
    for (k, g) in got.iter().enumerate() {
        if k >= good || g[..] != bytes[k * w..(k + 1) * w] {
            return Err(("parser_wrong_record", format!("record {k} = {g:02x?} is not record {k} of the input ({} good records available)", good)));
        }
    }
    let must_fail = injected || avail % w != 0 || first_bad_record.is_some_and(|b| b < full);
    if must_fail {
        if !ended_with_err {
            return Err(("parser_swallowed_error", format!("input with {} (avail {avail} bytes, record size {w}) ended without an error after {} records",
                if injected { "a transport error" } else if avail % w != 0 { "trailing partial data" } else { "an undecodable record" }, got.len())));
        }
    } else {
        if ended_with_err {
            return Err(("parser_spurious_error", format!("well-formed input of {} records produced an error after {} records", good, got.len())));
        }
        if !clean_end || got.len() != good {
            return Err(("parser_lost_records", format!("well-formed input of {} records yielded {} records (clean end: {clean_end})", good, got.len())));
        }
    }
    Ok(())
}

fn rec_single_raw<N: ArrayLength + Send + Sync + 'static>(bytes: &[u8], plan: &[Plan]) -> V
where
    generic_array::GenericArray<u8, N>: Send + Sync,
{
    let s: SingleRecordStream<Raw<N>, _> = RecordsStream::new(source(plan));
    let (items, end) = drain(Box::pin(s), bytes.len() + 8);
    let mut got = Vec::new();
    let mut err = false;
    for it in items {
        match it {
            Ok(m) if !err => got.push(m.bytes().to_vec()),
            Ok(_) => return Err(("parser_item_after_error", "record yielded after an error".into())),
            Err(_) => {
                err = true;
                break;
            }
        }
    }
    judge_records(&got, err, end, bytes, plan, N::USIZE, first_poisoned(bytes, N::USIZE))
}

/// the harness message type rejects the record whose bytes are all `POISON` (see msg.rs)
fn first_poisoned(bytes: &[u8], w: usize) -> Option<usize> {
    bytes.chunks_exact(w).position(|c| c.iter().all(|b| *b == crate::verif::msg::POISON))
}

fn rec_batch_raw<N: ArrayLength + Send + Sync + 'static>(bytes: &[u8], plan: &[Plan]) -> V
where
    generic_array::GenericArray<u8, N>: Send + Sync,
{
    let s: RecordsStream<Raw<N>, _> = RecordsStream::new(source(plan));
    let (items, end) = drain(Box::pin(s), bytes.len() + 8);
    let mut got = Vec::new();
    let mut err = false;
    for it in items {
        match it {
            Ok(v) => {
                if v.is_empty() {
                    return Err(("parser_empty_batch", "batch mode yielded an empty batch".into()));
                }
                got.extend(v.into_iter().map(|m| m.bytes().to_vec()));
            }
            Err(_) => {
                err = true;
                break;
            }
        }
    }
    judge_records(&got, err, end, bytes, plan, N::USIZE, first_poisoned(bytes, N::USIZE))
}

fn rec_fallible<T: Serializable + Send + 'static>(bytes: &[u8], plan: &[Plan], batch: bool) -> V {
    use typenum::Unsigned;
    let w = T::Size::USIZE;
    let first_bad = bytes.chunks_exact(w).position(|c| T::deserialize(generic_array::GenericArray::from_slice(c)).is_err());
    let mut got = Vec::new();
    let mut err = false;
    let end;
    let ser = |t: &T| {
        let mut b = generic_array::GenericArray::<u8, T::Size>::default();
        t.serialize(&mut b);
        b.to_vec()
    };
    if batch {
        let s: RecordsStream<T, _> = RecordsStream::new(source(plan));
        let (items, e) = drain(Box::pin(s), bytes.len() + 8);
        end = e;
        for it in items {
            match it {
                Ok(v) => got.extend(v.iter().map(ser)),
                Err(_) => {
                    err = true;
                    break;
                }
            }
        }
    } else {
        let s: SingleRecordStream<T, _> = RecordsStream::new(source(plan));
        let (items, e) = drain(Box::pin(s), bytes.len() + 8);
        end = e;
        for it in items {
            match it {
                Ok(v) => got.push(ser(&v)),
                Err(_) => {
                    err = true;
                    break;
                }
            }
        }
    }
    judge_records(&got, err, end, bytes, plan, w, first_bad)
}

fn ld(bytes: &[u8], plan: &[Plan]) -> V {
    // reference parse of what arrives before an injected error
    let (avail, injected) = bytes_before_err(plan);
    let data = &bytes[..avail];
    let mut recs: Vec<Vec<u8>> = Vec::new();
    let mut pos = 0;
    let mut malformed = false; // trailing partial data or poisoned record
    loop {
        if pos == data.len() {
            break;
        }
        if data.len() - pos < 2 {
            malformed = true;
            break;
        }
        let len = u16::from_le_bytes([data[pos], data[pos + 1]]) as usize;
        if data.len() - pos - 2 < len {
            malformed = true;
            break;
        }
        let body = data[pos + 2..pos + 2 + len].to_vec();
        if body.first() == Some(&0xEE) {
            malformed = true;
            break;
        }
        recs.push(body);
        pos += 2 + len;
    }
    let s: LengthDelimitedStream<Rec, _> = LengthDelimitedStream::new(source(plan));
    let (items, end) = drain(Box::pin(s), bytes.len() + 8);
    let mut got: Vec<Vec<u8>> = Vec::new();
    let mut err = false;
    for it in items {
        match it {
            Ok(v) => {
                if v.is_empty() {
                    return Err(("parser_empty_batch", "length-delimited stream yielded an empty batch".into()));
                }
                got.extend(v.into_iter().map(|r| r.0));
            }
            Err(_) => {
                err = true;
                break;
            }
        }
    }
    for (k, g) in got.iter().enumerate() {
        if k >= recs.len() || *g != recs[k] {
            return Err(("parser_wrong_record", format!("length-delimited record {k} = {} bytes {:02x?}.. is not record {k} of the input ({} records)", g.len(), &g[..g.len().min(6)], recs.len())));
        }
    }
    if injected || malformed {
        if !err {
            return Err(("parser_swallowed_error", format!("{} input ended without an error after {} of {} records",
                if injected { "failing" } else { "malformed" }, got.len(), recs.len())));
        }
    } else if err {
        return Err(("parser_spurious_error", format!("well-formed input of {} records produced an error after {}", recs.len(), got.len())));
    } else if !end || got.len() != recs.len() {
        return Err(("parser_lost_records", format!("well-formed input of {} records yielded {} (clean end {end})", recs.len(), got.len())));
    }
    Ok(())
}

fn buffered(bytes: &[u8], plan: &[Plan], buf: usize) -> V {
    let (avail, injected) = bytes_before_err(plan);
    let s = BufferedBytesStream::new(source(plan), NonZeroUsize::new(buf).unwrap());
    let (items, end) = drain(Box::pin(s), bytes.len() + 8);
    let mut got = Vec::new();
    let mut err = false;
    let mut sizes = Vec::new();
    for it in items {
        match it {
            Ok(b) => {
                sizes.push(b.len());
                got.extend_from_slice(&b);
            }
            Err(_) => {
                err = true;
                break;
            }
        }
    }
    if got.len() > avail || got[..] != bytes[..got.len()] {
        return Err(("parser_wrong_record", format!("re-chunked bytes differ from the input ({} of {avail} bytes)", got.len())));
    }
    for (k, s) in sizes.iter().enumerate() {
        if *s == 0 || *s > buf || (k + 1 < sizes.len() && *s != buf) {
            return Err(("buffered_chunk_size", format!("chunk {k} of {} has {s} bytes, buffer size {buf}", sizes.len())));
        }
    }
    if injected {
        if !err {
            return Err(("parser_swallowed_error", "transport error was not forwarded".into()));
        }
    } else if err {
        return Err(("parser_spurious_error", "error on a healthy stream".into()));
    } else if !end || got.len() != avail {
        return Err(("parser_lost_records", format!("re-chunking lost bytes: {} of {avail}", got.len())));
    }
    Ok(())
}
