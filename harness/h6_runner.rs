// Child module of `query::runner`: re-exports of private runner items for the harness.
pub use super::reshard_tag::reshard_aad;
pub use super::hybrid::Query as HybridQuery;
