// Root of the dsim harness, compiled as `crate::verif` of ipa-core's unit-test binary when the
// crate is built with `--cfg ipa_verif --features shuttle` (see /verif/DESIGN.md §2.1).
//
// Sub-modules are declared inline with include! because `mod x;` inside an included file would be
// resolved relative to /repo.

macro_rules! hmod {
    ($name:ident, $file:literal) => {
        pub(crate) mod $name {
            include!(concat!(env!("IPA_VERIF_DIR"), "/harness/", $file));
        }
    };
}

hmod!(sim, "sim.rs");
hmod!(msg, "msg.rs");
hmod!(world, "world.rs");
hmod!(faults, "faults.rs");
hmod!(c05_shuffle, "c05_shuffle.rs");
hmod!(c01_hybrid, "c01_hybrid.rs");
hmod!(c04_mac, "c04_mac.rs");
hmod!(c07_circuits, "c07_circuits.rs");
hmod!(c03_push, "c03_push.rs");
hmod!(c07_more, "c07_more.rs");
hmod!(c13_gateway, "c13_gateway.rs");
hmod!(c06_prss, "c06_prss.rs");
hmod!(c19_reshard, "c19_reshard.rs");
hmod!(c15_seqjoin, "c15_seqjoin.rs");
hmod!(c17_parsers, "c17_parsers.rs");
hmod!(c18_lifecycle, "c18_lifecycle.rs");
hmod!(c10_reports, "c10_reports.rs");
hmod!(c11_dups, "c11_dups.rs");

use sim::Scenario;

fn registry() -> Vec<&'static dyn Scenario> {
    let mut v: Vec<&'static dyn Scenario> = Vec::new();
    v.extend(crate::helpers::verif_h2::scenarios());
    v.extend(c05_shuffle::scenarios());
    v.extend(c01_hybrid::scenarios());
    v.extend(c04_mac::scenarios());
    v.extend(c06_prss::scenarios());
    v.extend(c07_circuits::scenarios());
    v.extend(c03_push::scenarios());
    v.extend(c07_more::scenarios());
    v.extend(c13_gateway::scenarios());
    v.extend(c15_seqjoin::scenarios());
    v.extend(c17_parsers::scenarios());
    v.extend(c18_lifecycle::scenarios());
    v.extend(c10_reports::scenarios());
    v.extend(c11_dups::scenarios());
    v.extend(c19_reshard::scenarios());
    v.extend(crate::protocol::context::verif_h3::scenarios());
    v.extend(crate::protocol::dp::verif_h4::scenarios());
    v
}

/// The single entry point: `$BIN verif::entry --exact --nocapture --test-threads 1`.
#[test]
fn entry() {
    sim::worker_main(&registry());
}
