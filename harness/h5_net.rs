// Hook H5 (child module of helpers::transport::in_memory): optional "eager network".
//
// The in-memory transport hands the sender's chunk stream to the receiver, which pulls chunks when
// its own code asks for data; the stream interceptor therefore sees a message only once the
// *receiver* polls.  On a real network bytes leave the sender as soon as they exist, and whoever
// controls a helper's network stack sees what arrives before that helper's code asks for it.  When
// a run sets `verif::sim::EAGER_NET`, every outgoing stream is drained by a pump task of its own
// (scheduled like any other task) which applies the interceptor at once and queues the chunks for
// the receiver.  Off (the default): the stream is passed through untouched.

use std::pin::Pin;

use futures::{Stream, StreamExt};

use crate::{
    helpers::in_memory_config::{DynStreamInterceptor, InspectContext},
    verif::sim::EAGER_NET,
};

pub fn eager<D>(
    data: D,
    context: Option<InspectContext>,
    interceptor: &DynStreamInterceptor,
) -> (Pin<Box<dyn Stream<Item = Vec<u8>> + Send>>, Option<InspectContext>)
where
    D: Stream<Item = Vec<u8>> + Send + 'static,
{
    if !EAGER_NET.load(std::sync::atomic::Ordering::SeqCst) {
        return (Box::pin(data), context);
    }
    let Some(ctx) = context else {
        return (Box::pin(data), None);
    };
    let (tx, rx) = ::tokio::sync::mpsc::unbounded_channel::<Vec<u8>>();
    let interceptor = interceptor.clone();
    shuttle::future::spawn(async move {
        let mut data = Box::pin(data);
        while let Some(mut chunk) = data.next().await {
            interceptor.peek(&ctx, &mut chunk);
            if tx.send(chunk).is_err() {
                break;
            }
        }
    });
    (Box::pin(tokio_stream::wrappers::UnboundedReceiverStream::new(rx)), None)
}
