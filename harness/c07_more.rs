// C07, continued — building blocks that are not bit-decomposed vector circuits:
//
//  * c07_ba   : multiplexer (`select`) and saturating subtraction over Boolean-array shares of width
//               {3,5,8,16,20,32,64}, semi-honest and DZKP-malicious, batched / single validation
//  * c07_conv : bit-to-field share conversion `convert_to_fp25519::<_, 256, NP>` for NP in {1,16}
//
// Oracle: plaintext function of the reconstructed inputs + consistency of the three output sharings.

use std::{
    collections::BTreeMap,
    sync::{
        Arc as StdArc, Mutex as StdMutex,
        atomic::AtomicBool,
    },
};

use curve25519_dalek::Scalar;
use futures::{StreamExt, TryStreamExt, stream};
use generic_array::GenericArray;
use serde_json::{Value, json};

use crate::{
    error::Error,
    ff::{
        Serializable, U128Conversions,
        boolean::Boolean,
        boolean_array::{BA3, BA5, BA8, BA16, BA20, BA32, BA64},
        boolean_array::BA256,
        ec_prime_field::Fp25519,
    },
    protocol::{
        RecordId,
        basics::select,
        boolean::step::DefaultBitStep,
        context::{Context, TEST_DZKP_STEPS, UpgradableContext, dzkp_validator::DZKPValidator},
        ipa_prf::boolean_ops::{
            comparison_and_subtraction_sequential::integer_sat_sub, convert_to_fp25519,
        },
    },
    secret_sharing::{
        BitDecomposed,
        replicated::{ReplicatedSecretSharing, semi_honest::AdditiveShare},
    },
    seq_join::{SeqJoin, seq_join},
    test_fixture::{Runner, TestWorld},
    verif::{c05_shuffle::Shared3, c07_circuits::VecShare, faults::{self, *}, sim::*, world::*},
};

pub fn scenarios() -> Vec<&'static dyn Scenario> {
    vec![&BaScenario { tampered: false }, &BaScenario { tampered: true }, &ConvScenario, &AggScenario]
}

fn mask(w: usize) -> u128 {
    if w >= 128 { u128::MAX } else { (1u128 << w) - 1 }
}

fn boundary(r: &mut Rng, w: usize) -> u128 {
    let v = match r.below(8) {
        0 => 0,
        1 => 1,
        2 => mask(w),
        3 => mask(w).wrapping_sub(1),
        4 => 1u128 << r.below(w),
        5 => (1u128 << r.below(w)).wrapping_sub(1),
        _ => u128::from(r.next_u64()) | (u128::from(r.next_u64()) << 64),
    };
    v & mask(w)
}

// ------------------------------------------------------------------------------------------------
// c07_ba
// ------------------------------------------------------------------------------------------------

pub struct BaScenario {
    pub tampered: bool,
}

/// per helper: (left, right) of the result of every record
type BaRes = Result<Vec<(u128, u128)>, String>;

struct BaRun {
    outcome: SimOutcome,
    res: BTreeMap<usize, BaRes>,
    inv: BTreeMap<ChanKey, ChanStat>,
    fired: Vec<Value>,
}

macro_rules! ba_run {
    ($name:ident, $ba:ty) => {
        fn $name(p: &Value, spec: &SchedSpec, cs: &[bool], xs: &[u128], ys: &[u128], site: Option<Site>) -> BaRun {
            let op = ps(p, "op").to_string();
            let records = pu(p, "records");
            let (malicious, batched, max_mults) = (pb(p, "malicious"), pb(p, "batched"), pu(p, "max_mults"));
            let knobs = &p["knobs"];
            let (active, read_size, world_seed) = (pu(knobs, "active"), pu(knobs, "read_size"), pu64(knobs, "world_seed"));
            let input_seed = pu64(p, "input_seed");
            let (tamper, interceptor) = faults::tamper(site);
            let log: StdArc<StdMutex<BTreeMap<usize, BaRes>>> = StdArc::new(StdMutex::new(BTreeMap::new()));
            let log2 = StdArc::clone(&log);
            let (cs, xs, ys) = (cs.to_vec(), xs.to_vec(), ys.to_vec());
            let outcome = sim_async(spec, StdArc::new(AtomicBool::new(false)), move || {
                let (log, op, cs, xs, ys, interceptor) = (StdArc::clone(&log2), op.clone(), cs.clone(), xs.clone(), ys.clone(), interceptor.clone());
                async move {
                    let world = TestWorld::new_with(&world_config(world_seed, active, read_size, Some(interceptor)));
                    let mut sr = Rng::sub(input_seed, 99);
                    type In = (AdditiveShare<Boolean>, AdditiveShare<$ba>, AdditiveShare<$ba>);
                    let mut inputs: [Vec<In>; 3] = [Vec::new(), Vec::new(), Vec::new()];
                    let w = <$ba as crate::secret_sharing::SharedValue>::BITS as usize;
                    for rec in 0..records {
                        let split = |v: u128, sr: &mut Rng| {
                            let (a, b) = (boundary(sr, w), boundary(sr, w));
                            [a, b, (v ^ a ^ b) & mask(w)]
                        };
                        let c = split(u128::from(cs[rec]), &mut sr).map(|v| v & 1);
                        let c = [c[0], c[1], (u128::from(cs[rec]) ^ c[0] ^ c[1]) & 1];
                        let (x, y) = (split(xs[rec], &mut sr), split(ys[rec], &mut sr));
                        for h in 0..3 {
                            let n = (h + 1) % 3;
                            inputs[h].push((
                                AdditiveShare::new(Boolean::from(c[h] == 1), Boolean::from(c[n] == 1)),
                                AdditiveShare::new(<$ba>::truncate_from(x[h]), <$ba>::truncate_from(x[n])),
                                AdditiveShare::new(<$ba>::truncate_from(y[h]), <$ba>::truncate_from(y[n])),
                            ));
                        }
                    }
                    let (log, op) = (&log, &op);
                    macro_rules! body {
                        ($ctx:ident, $inp:ident) => {{
                            let h = role_idx($ctx.role());
                            let v = $ctx.set_total_records(records).dzkp_validator(TEST_DZKP_STEPS, max_mults);
                            let m = v.context();
                            let one = |m, i: usize, (c, x, y): In| async move {
                                if op == "select" {
                                    select(m, RecordId::from(i), &c, &x, &y).await
                                } else {
                                    integer_sat_sub::<_, $ba, DefaultBitStep>(m, RecordId::from(i), &x, &y).await
                                }
                            };
                            let r: Result<Vec<AdditiveShare<$ba>>, Error> = if batched {
                                v.validated_seq_join(stream::iter($inp).enumerate().map(|(i, t)| one(m.clone(), i, t))).try_collect().await
                            } else {
                                let joined: Result<Vec<AdditiveShare<$ba>>, Error> = m.try_join($inp.into_iter().enumerate().map(|(i, t)| one(m.clone(), i, t))).await;
                                match joined {
                                    Ok(out) => v.validate().await.map(|()| out),
                                    Err(e) => Err(e),
                                }
                            };
                            log.lock().unwrap().insert(h, r.map(|v| v.iter().map(|s| (s.left().as_u128(), s.right().as_u128())).collect()).map_err(|e| e.to_string()));
                        }};
                    }
                    if malicious {
                        world.malicious(Shared3(inputs), |ctx, inp: Vec<In>| async move { body!(ctx, inp) }).await;
                    } else {
                        world.semi_honest(Shared3(inputs), |ctx, inp: Vec<In>| async move { body!(ctx, inp) }).await;
                    }
                }
            });
            let t = tamper.log.lock().unwrap();
            BaRun { outcome, res: log.lock().unwrap().clone(), inv: t.chans.clone(), fired: t.fired.clone() }
        }
    };
}
ba_run!(ba_run3, BA3);
ba_run!(ba_run5, BA5);
ba_run!(ba_run8, BA8);
ba_run!(ba_run16, BA16);
ba_run!(ba_run20, BA20);
ba_run!(ba_run32, BA32);
ba_run!(ba_run64, BA64);

impl Scenario for BaScenario {
    fn name(&self) -> &'static str {
        if self.tampered { "c03_ba_tamper" } else { "c07_ba" }
    }

    fn generate(&self, seed: u64, tier: Tier) -> Value {
        let mut r = Rng::sub(seed, if self.tampered { 3_21 } else { 7_11 });
        let op = r.pick(&["select", "sat_sub"]);
        let w = r.pick(&[3usize, 5, 8, 16, 20, 32, 64]);
        let exhaustive = op == "sat_sub" && w <= 5 && r.chance(1, 2);
        // select: sometimes enough records of one narrow width to spill over several storage blocks of one gate
        let records = if exhaustive {
            1usize << (2 * w)
        } else if op == "select" && r.chance(1, 4) {
            r.range(60, if tier == Tier::Quick { 200 } else { 700 })
        } else {
            r.range(1, if tier == Tier::Quick { 16 } else { 48 })
        };
        let malicious = self.tampered || r.chance(2, 3);
        let records = if self.tampered { records.min(40) } else { records };
        let batched = r.chance(1, 2);
        let max_mults = if batched { r.pick(&[1usize, 2, 4, 8, 16, 64, 256]).min(records.next_power_of_two()) } else { records.next_power_of_two() };
        let est = 800 + (records * if op == "select" { 4 } else { w + 4 }) as u64 * 40;
        let mut p = json!({"op": op, "w": w, "records": records, "exhaustive": exhaustive, "malicious": malicious, "batched": batched,
            "max_mults": max_mults, "input_seed": r.next_u64() >> 12, "knobs": draw_knobs(&mut r)});
        if self.tampered {
            p["corrupt"] = json!(r.below(3));
            p["site_seed"] = json!(r.next_u64() >> 12);
        }
        p["sched"] = SchedSpec::draw(&mut r, est, 6_000_000);
        p
    }

    fn exec(&self, p: &Value, explicit: Option<Vec<u32>>) -> RunRes {
        let op = ps(p, "op").to_string();
        let (w, records) = (pu(p, "w"), pu(p, "records"));
        let (malicious, batched, max_mults, exhaustive) = (pb(p, "malicious"), pb(p, "batched"), pu(p, "max_mults"), pb(p, "exhaustive"));
        let knobs = &p["knobs"];
        if !["select", "sat_sub"].contains(&op.as_str()) || ![3usize, 5, 8, 16, 20, 32, 64].contains(&w) || records == 0 || records > 4096
            || !max_mults.is_power_of_two() || (!batched && max_mults < records) || (exhaustive && w > 5)
            || !pu(knobs, "active").is_power_of_two() || pu(knobs, "active") < 2 || pu(knobs, "read_size") == 0
            || (self.tampered && (!malicious || pu(p, "corrupt") > 2))
        {
            return RunRes::invalid("ba: plan");
        }
        let mut r = Rng::sub(pu64(p, "input_seed"), 1);
        let (mut cs, mut xs, mut ys) = (Vec::new(), Vec::new(), Vec::new());
        for k in 0..records {
            cs.push(r.chance(1, 2));
            if exhaustive {
                let idx = (k as u128) % (1u128 << (2 * w));
                xs.push(idx & mask(w));
                ys.push(idx >> w);
            } else {
                let x = boundary(&mut r, w);
                xs.push(x);
                // equal operands and neighbours are the interesting cases of a saturating subtraction
                ys.push(match r.below(6) { 0 => x, 1 => x.wrapping_add(1) & mask(w), 2 => x.wrapping_sub(1) & mask(w), _ => boundary(&mut r, w) });
            }
        }
        let want = |k: usize| if op == "select" { if cs[k] { xs[k] } else { ys[k] } } else { xs[k].saturating_sub(ys[k]) };
        let spec = SchedSpec::from_json(&p["sched"], explicit);
        let shape = format!("ba {op} w{w} r{records} m{} b{}x{max_mults} e{}", u8::from(malicious), u8::from(batched), u8::from(exhaustive));
        let go = |site: Option<Site>| match w {
            3 => ba_run3(p, &spec, &cs, &xs, &ys, site),
            5 => ba_run5(p, &spec, &cs, &xs, &ys, site),
            8 => ba_run8(p, &spec, &cs, &xs, &ys, site),
            16 => ba_run16(p, &spec, &cs, &xs, &ys, site),
            20 => ba_run20(p, &spec, &cs, &xs, &ys, site),
            32 => ba_run32(p, &spec, &cs, &xs, &ys, site),
            _ => ba_run64(p, &spec, &cs, &xs, &ys, site),
        };
        let run = go(None);
        let o = run.outcome.clone();
        match o.class {
            "finished" => {}
            "deadlock" | "stepcap" => return RunRes::violation("circ_no_progress", format!("{}: {}", o.class, truncate(&o.panic_msg.clone().unwrap_or_default(), 300)), shape, Some(o)),
            _ => return RunRes::violation("circ_panic", format!("panic in a fault-free run: {}", o.panic_msg.clone().unwrap_or_default()), shape, Some(o)),
        }
        let mut per: Vec<&Vec<(u128, u128)>> = Vec::new();
        for h in 0..3 {
            match run.res.get(&h) {
                Some(Ok(v)) => per.push(v),
                Some(Err(e)) => return RunRes::violation("circ_spurious_error", format!("helper {} failed in a fault-free run: {e}", h + 1), shape, Some(o)),
                None => return RunRes::violation("circ_no_result", format!("helper {} produced no result", h + 1), shape, Some(o)),
            }
        }
        for k in 0..records {
            for h in 0..3 {
                if per[h][k].1 != per[(h + 1) % 3][k].0 {
                    return RunRes::violation("circ_inconsistent_sharing", format!("record {k}: H{}.right != H{}.left", h + 1, (h + 1) % 3 + 1), shape, Some(o));
                }
            }
            let got = per[0][k].0 ^ per[1][k].0 ^ per[2][k].0;
            if got != want(k) {
                return RunRes::violation("circ_wrong_result",
                    format!("{op}(c={}, {:#x}, {:#x}) width {w} = {:#x}, protocol returned {got:#x} (record {k}, {} mode)", cs[k], xs[k], ys[k], want(k), if malicious { "malicious" } else { "semi-honest" }),
                    shape, Some(o));
            }
        }
        if !self.tampered {
            let mut res = RunRes::pass(shape, o.decisions > 0, Some(o));
            res.probe(&format!("ba_{op}"), records as u64);
            res.probe("ba_exhaustive", u64::from(exhaustive));
            res.probe("ba_gate_spans_blocks", u64::from(malicious && records.min(max_mults) * w.next_power_of_two() > 256));
            return res;
        }
        // ---- C03: the same workload with one chunk of one helper's traffic rewritten ----
        let corrupt = pu(p, "corrupt");
        let mut sr = Rng::sub(pu64(p, "site_seed"), 0);
        let site = match p.get("site") {
            Some(s) if !s.is_null() => Some(Site::from_json(s)),
            _ => draw_site(&run.inv, &|k: &ChanKey| k.sender_helper() == corrupt, &mut sr, &["flip:0", "flip:1", "flip:4", "flip:7", "add1", "setff", "set0"]),
        };
        let Some(site) = site else {
            return RunRes::inconclusive("no_site", "no channel of the corrupt helper in the inventory".into(), shape, Some(o));
        };
        let bad = go(Some(site.clone()));
        let o2 = bad.outcome.clone();
        if bad.fired.is_empty() {
            return RunRes::inconclusive("tamper_not_delivered", format!("site {} never reached", site.to_json()), shape, Some(o2));
        }
        let (a, b) = ((corrupt + 1) % 3, (corrupt + 2) % 3);
        // the helper that received an altered product share is the verifier to the left of the deviating party: it is the one
        // that has to reject (whatever the others do)
        if !site.chan.gate.contains("/validate") && site.chan.kind == "mpc" && site.chan.dst != corrupt {
            if let Some(Ok(_)) = bad.res.get(&site.chan.dst) {
                let mut r = RunRes::violation("dzkp_receiver_of_altered_share_accepted",
                    format!("helper {} altered a multiplication message {} ; helper {} - the verifier to its left, which received the altered share - validated the batch (the other honest helper: {})",
                        corrupt + 1, site.to_json(), site.chan.dst + 1, match bad.res.get(&(3 - corrupt - site.chan.dst)) { Some(Ok(_)) => "accepted too".to_string(), Some(Err(e)) => format!("rejected: {}", truncate(e, 80)), None => "no result".to_string() }),
                    shape, Some(o2.clone()));
                r.extra = json!({"site": site.to_json(), "fired": bad.fired});
                return r;
            }
        }
        let mut res = match (bad.res.get(&a), bad.res.get(&b)) {
            (Some(Ok(ra)), Some(Ok(rb))) => {
                let wrong = (0..records).find(|k| ra[*k].1 != rb[*k].0 || (ra[*k].0 ^ ra[*k].1 ^ rb[*k].1) != want(*k));
                match wrong {
                    Some(k) => RunRes::violation("dzkp_tamper_accepted_result_changed",
                        format!("helper {} altered {}; both honest helpers validated the batch but {op} record {k} now opens to {:#x} instead of {:#x}", corrupt + 1, site.to_json(), ra[k].0 ^ ra[k].1 ^ rb[k].1, want(k)),
                        shape, Some(o2.clone())),
                    None if !site.chan.gate.contains("/validate") => RunRes::violation("dzkp_mult_tamper_accepted",
                        format!("helper {} altered a multiplication message of {op} {} and both honest helpers validated the batch", corrupt + 1, site.to_json()),
                        shape, Some(o2.clone())),
                    None => {
                        let mut r = RunRes::pass(shape, true, Some(o2.clone()));
                        r.probe("proof_msg_tamper_accepted_result_intact", 1);
                        r
                    }
                }
            }
            _ => {
                let mut r = RunRes::pass(shape, true, Some(o2.clone()));
                r.probe("tamper_rejected_or_aborted", 1);
                r
            }
        };
        res.fault("F1_tamper_delivered", 1);
        res.probe(&format!("outcome_{}", o2.class), 1);
        res.probe(&format!("ba_tamper_{op}"), 1);
        res.probe(if site.chan.gate.contains("/validate") { "site_proof_message" } else { "site_array_multiplication" }, 1);
        res.extra = json!({"site": site.to_json(), "fired": bad.fired, "inventory_channels": run.inv.len()});
        res
    }
}

// ------------------------------------------------------------------------------------------------
// c07_conv
// ------------------------------------------------------------------------------------------------

pub struct ConvScenario;

const NC: usize = 256;
type BitVecShare = AdditiveShare<Boolean, 256>;
/// per helper: serialised (left, right) of every converted value
type ConvRes = Result<Vec<(Vec<u8>, Vec<u8>)>, String>;

fn ser<T: Serializable>(t: &T) -> Vec<u8> {
    let mut b = GenericArray::<u8, T::Size>::default();
    t.serialize(&mut b);
    b.to_vec()
}

struct ConvRun {
    outcome: SimOutcome,
    res: BTreeMap<usize, ConvRes>,
}

macro_rules! conv_run {
    ($name:ident, $np:literal) => {
        fn $name(p: &Value, spec: &SchedSpec, vals: &[Vec<u128>]) -> ConvRun {
            let (w, chunks, malicious, proof_chunk) = (pu(p, "w"), pu(p, "chunks"), pb(p, "malicious"), pu(p, "proof_chunk"));
            let knobs = &p["knobs"];
            let (active, read_size, world_seed) = (pu(knobs, "active"), pu(knobs, "read_size"), pu64(knobs, "world_seed"));
            let input_seed = pu64(p, "input_seed");
            let log: StdArc<StdMutex<BTreeMap<usize, ConvRes>>> = StdArc::new(StdMutex::new(BTreeMap::new()));
            let log2 = StdArc::clone(&log);
            let vals = vals.to_vec();
            let outcome = sim_async(spec, StdArc::new(AtomicBool::new(false)), move || {
                let (log, vals) = (StdArc::clone(&log2), vals.clone());
                async move {
                    let world = TestWorld::new_with(&world_config(world_seed, active, read_size, None));
                    let mut sr = Rng::sub(input_seed, 99);
                    let mut inputs: [Vec<BitDecomposed<BitVecShare>>; 3] = [Vec::new(), Vec::new(), Vec::new()];
                    for c in 0..chunks {
                        let [a, b, d] = share_bits256(&vals[c], w, &mut sr);
                        inputs[0].push(a);
                        inputs[1].push(b);
                        inputs[2].push(d);
                    }
                    let log = &log;
                    macro_rules! body {
                        ($ctx:ident, $inp:ident) => {{
                            let h = role_idx($ctx.role());
                            let v = $ctx.set_total_records(chunks).dzkp_validator(TEST_DZKP_STEPS, proof_chunk);
                            let m = v.context();
                            let r: Result<Vec<Vec<AdditiveShare<Fp25519, $np>>>, Error> = seq_join(
                                m.active_work(),
                                stream::iter($inp).enumerate().map(|(i, bits)| {
                                    let m = m.clone();
                                    async move { convert_to_fp25519::<_, NC, $np>(m, RecordId::from(i), bits).await }
                                }),
                            )
                            .try_collect()
                            .await;
                            let r = r.map(|chunks| {
                                chunks.into_iter().flatten().flat_map(|s| {
                                    let (l, r) = (s.left_arr().clone(), s.right_arr().clone());
                                    l.into_iter().zip(r.into_iter()).map(|(l, r)| (ser(&l), ser(&r))).collect::<Vec<_>>()
                                }).collect::<Vec<_>>()
                            });
                            log.lock().unwrap().insert(h, r.map_err(|e| e.to_string()));
                        }};
                    }
                    if malicious {
                        world.malicious(Shared3(inputs), |ctx, inp: Vec<BitDecomposed<BitVecShare>>| async move { body!(ctx, inp) }).await;
                    } else {
                        world.semi_honest(Shared3(inputs), |ctx, inp: Vec<BitDecomposed<BitVecShare>>| async move { body!(ctx, inp) }).await;
                    }
                }
            });
            ConvRun { outcome, res: log.lock().unwrap().clone() }
        }
    };
}
conv_run!(conv_run1, 1);
conv_run!(conv_run16, 16);

fn share_bits256(values: &[u128], width: usize, r: &mut Rng) -> [BitDecomposed<BitVecShare>; 3] {
    let mut out: [Vec<BitVecShare>; 3] = [Vec::new(), Vec::new(), Vec::new()];
    for k in 0..width {
        let mut s: [Vec<bool>; 3] = [Vec::new(), Vec::new(), Vec::new()];
        for lane in 0..NC {
            let b = (values[lane] >> k) & 1 == 1;
            let (a0, a1) = (r.next_u64() & 1 == 1, r.next_u64() & 2 == 2);
            s[0].push(a0);
            s[1].push(a1);
            s[2].push(b ^ a0 ^ a1);
        }
        for h in 0..3 {
            out[h].push(<BitVecShare as VecShare<256>>::mk(&s[h], &s[(h + 1) % 3]));
        }
    }
    out.map(BitDecomposed::new)
}

impl Scenario for ConvScenario {
    fn name(&self) -> &'static str {
        "c07_conv"
    }

    fn generate(&self, seed: u64, _tier: Tier) -> Value {
        let mut r = Rng::sub(seed, 7_21);
        let w = r.pick(&[1usize, 8, 32, 64, 64, 100, 127]);
        let chunks = r.pick(&[1usize, 1, 2, 3]);
        let mut knobs = draw_knobs(&mut r);
        knobs["active"] = json!(r.pick(&[2usize, 4, 8]));
        let mut p = json!({"w": w, "np": r.pick(&[1usize, 16]), "chunks": chunks, "malicious": r.chance(1, 2), "proof_chunk": r.pick(&[1usize, 2]),
            "input_seed": r.next_u64() >> 12, "knobs": knobs});
        p["sched"] = SchedSpec::draw(&mut r, 60_000, 20_000_000);
        p
    }

    fn exec(&self, p: &Value, explicit: Option<Vec<u32>>) -> RunRes {
        let (w, np, chunks, malicious, proof_chunk) = (pu(p, "w"), pu(p, "np"), pu(p, "chunks"), pb(p, "malicious"), pu(p, "proof_chunk"));
        let knobs = &p["knobs"];
        if w == 0 || w > 127 || ![1usize, 16].contains(&np) || chunks == 0 || chunks > 8 || !proof_chunk.is_power_of_two()
            || !pu(knobs, "active").is_power_of_two() || pu(knobs, "active") < 2 || pu(knobs, "read_size") == 0
        {
            return RunRes::invalid("conv: plan");
        }
        let mut r = Rng::sub(pu64(p, "input_seed"), 1);
        let vals: Vec<Vec<u128>> = (0..chunks).map(|_| (0..NC).map(|_| boundary(&mut r, w)).collect()).collect();
        let spec = SchedSpec::from_json(&p["sched"], explicit);
        let shape = format!("conv w{w} np{np} c{chunks} m{} pc{proof_chunk}", u8::from(malicious));
        let run = if np == 1 { conv_run1(p, &spec, &vals) } else { conv_run16(p, &spec, &vals) };
        let o = run.outcome.clone();
        match o.class {
            "finished" => {}
            "deadlock" | "stepcap" => return RunRes::violation("circ_no_progress", format!("{}: {}", o.class, truncate(&o.panic_msg.clone().unwrap_or_default(), 300)), shape, Some(o)),
            _ => return RunRes::violation("circ_panic", format!("panic in a fault-free run: {}", o.panic_msg.clone().unwrap_or_default()), shape, Some(o)),
        }
        let mut per: Vec<&Vec<(Vec<u8>, Vec<u8>)>> = Vec::new();
        for h in 0..3 {
            match run.res.get(&h) {
                Some(Ok(v)) => per.push(v),
                Some(Err(e)) => return RunRes::violation("circ_spurious_error", format!("helper {} failed in a fault-free conversion (NP={np}): {e}", h + 1), shape, Some(o)),
                None => return RunRes::violation("circ_no_result", format!("helper {} produced no result", h + 1), shape, Some(o)),
            }
        }
        let total = chunks * NC;
        for h in 0..3 {
            if per[h].len() != total {
                return RunRes::violation("circ_wrong_result", format!("helper {} returned {} converted values for {total} inputs", h + 1, per[h].len()), shape, Some(o));
            }
        }
        let de = |b: &Vec<u8>| Fp25519::deserialize_infallible(GenericArray::from_slice(b));
        for k in 0..total {
            for h in 0..3 {
                if per[h][k].1 != per[(h + 1) % 3][k].0 {
                    return RunRes::violation("circ_inconsistent_sharing", format!("value {k}: H{}.right != H{}.left", h + 1, (h + 1) % 3 + 1), shape, Some(o));
                }
            }
            let got = de(&per[0][k].0) + de(&per[1][k].0) + de(&per[2][k].0);
            let want = Fp25519::from(Scalar::from(vals[k / NC][k % NC]));
            if got != want {
                return RunRes::violation("circ_wrong_result",
                    format!("convert_to_fp25519 of {:#x} (width {w}, NP={np}, value {k}, {} mode) reconstructs to {:02x?}", vals[k / NC][k % NC], if malicious { "malicious" } else { "semi-honest" }, ser(&got)),
                    shape, Some(o));
            }
        }
        let mut res = RunRes::pass(shape, o.decisions > 0, Some(o));
        res.probe("conv_values", total as u64);
        res.probe(&format!("conv_np{np}"), 1);
        res
    }
}

// ------------------------------------------------------------------------------------------------
// c07_agg : bucket aggregation (`aggregate_values`) called directly, as one call or as a history of
// calls over chunks of the rows that share the per-layer record counters (as breakdown-reveal
// aggregation does), every chunk size >= 1 incl. odd ones
// ------------------------------------------------------------------------------------------------

pub struct AggScenario;

/// per helper: per chunk, per bucket (left, right)
type AggRes = Result<Vec<Vec<(u128, u128)>>, String>;

struct AggRun {
    outcome: SimOutcome,
    res: BTreeMap<usize, AggRes>,
}

macro_rules! agg_run {
    ($name:ident, $b:literal, $lane_ty:ty, $ov:ty, $mode:ident) => {
        fn $name(p: &Value, spec: &SchedSpec, rows: &[Vec<u128>]) -> AggRun {
            use crate::protocol::ipa_prf::aggregation::{AGGREGATE_DEPTH, aggregate_values};
            let (vw, malicious) = (pu(p, "vw"), pb(p, "malicious"));
            let chunks = pvec(p, "chunks");
            let knobs = &p["knobs"];
            let (active, read_size, world_seed) = (pu(knobs, "active"), pu(knobs, "read_size"), pu64(knobs, "world_seed"));
            let input_seed = pu64(p, "input_seed");
            let log: StdArc<StdMutex<BTreeMap<usize, AggRes>>> = StdArc::new(StdMutex::new(BTreeMap::new()));
            let log2 = StdArc::clone(&log);
            let rows = rows.to_vec();
            let outcome = sim_async(spec, StdArc::new(AtomicBool::new(false)), move || {
                let (log, rows, chunks) = (StdArc::clone(&log2), rows.clone(), chunks.clone());
                async move {
                    let world = TestWorld::new_with(&world_config(world_seed, active, read_size, None));
                    let mut sr = Rng::sub(input_seed, 99);
                    type Row = BitDecomposed<$lane_ty>;
                    let mut inputs: [Vec<Row>; 3] = [Vec::new(), Vec::new(), Vec::new()];
                    for r in &rows {
                        let [a, b, c] = crate::verif::c07_circuits::share_bits::<$lane_ty, $b>(r, vw, &mut sr);
                        inputs[0].push(a);
                        inputs[1].push(b);
                        inputs[2].push(c);
                    }
                    let (log, chunks) = (&log, &chunks);
                    macro_rules! body {
                        ($ctx:ident, $inp:ident) => {{
                            let h = role_idx($ctx.role());
                            let mut record_ids = [RecordId::FIRST; AGGREGATE_DEPTH];
                            let mut out: Vec<Vec<(u128, u128)>> = Vec::new();
                            let mut it = $inp.into_iter();
                            let mut failure: Option<Error> = None;
                            // proof batches are numbered consecutively over the calls that have something to prove: a one-row call
                            // performs no multiplication and sends no proof, and the proof channels are ordered by batch index (the
                            // in-tree chunked caller can only have such a call last in its layer)
                            let mut proof_batches = 0usize;
                            for (_ci, len) in chunks.iter().enumerate() {
                                let ci = proof_batches;
                                proof_batches += usize::from(*len > 1);
                                let chunk: Vec<Row> = it.by_ref().take(*len).collect();
                                // one proof batch per call, as the in-tree chunked caller does
                                let v = $ctx.clone().dzkp_validator(TEST_DZKP_STEPS, usize::MAX);
                                let r = aggregate_values::<_, $ov, $b>(v.context(), stream::iter(chunk).map(Ok).boxed(), *len, Some(&mut record_ids)).await;
                                let r = match r {
                                    Ok(x) => v.validate_indexed(ci).await.map(|()| x),
                                    Err(e) => Err(e),
                                };
                                match r {
                                    Ok(x) => out.push(crate::verif::c07_circuits::open_bits::<$lane_ty, $b>(&x)),
                                    Err(e) => {
                                        failure = Some(e);
                                        break;
                                    }
                                }
                            }
                            log.lock().unwrap().insert(h, match failure { None => Ok(out), Some(e) => Err(e.to_string()) });
                        }};
                    }
                    agg_modes!($mode, malicious, world, inputs, Row, body);
                }
            });
            AggRun { outcome, res: log.lock().unwrap().clone() }
        }
    };
}

macro_rules! agg_modes {
    (both, $malicious:ident, $world:ident, $inputs:ident, $row:ty, $body:ident) => {
        if $malicious {
            $world.malicious(Shared3($inputs), |ctx, inp: Vec<$row>| async move { $body!(ctx, inp) }).await;
        } else {
            $world.semi_honest(Shared3($inputs), |ctx, inp: Vec<$row>| async move { $body!(ctx, inp) }).await;
        }
    };
    (sh, $malicious:ident, $world:ident, $inputs:ident, $row:ty, $body:ident) => {
        assert!(!$malicious, "harness: this vector width has no proof-carrying mode");
        $world.semi_honest(Shared3($inputs), |ctx, inp: Vec<$row>| async move { $body!(ctx, inp) }).await;
    };
}

agg_run!(agg_8_8, 8, AdditiveShare<Boolean, 8>, BA8, sh);
agg_run!(agg_32_8, 32, AdditiveShare<Boolean, 32>, BA8, both);
agg_run!(agg_32_16, 32, AdditiveShare<Boolean, 32>, BA16, both);
agg_run!(agg_256_8, 256, AdditiveShare<Boolean, 256>, BA8, both);
agg_run!(agg_256_32, 256, AdditiveShare<Boolean, 256>, BA32, both);

impl Scenario for AggScenario {
    fn name(&self) -> &'static str {
        "c07_agg"
    }

    fn generate(&self, seed: u64, tier: Tier) -> Value {
        let mut r = Rng::sub(seed, 7_31);
        let (b, ov) = r.pick(&[(8usize, 8usize), (32, 8), (32, 16), (256, 8), (256, 32)]);
        let vw = r.pick(&[1usize, 3, 3, 5, 8]).min(ov);
        let n = r.range(1, if tier == Tier::Quick { 24 } else { 70 });
        // history: one call, or several calls over chunks of any size >= 1
        let mut chunks = Vec::new();
        if r.chance(1, 3) {
            chunks.push(n);
        } else {
            let mut left = n;
            while left > 0 {
                let c = match r.below(3) { 0 => r.pick(&[1usize, 2, 4, 8]), 1 => r.pick(&[3usize, 5, 7]), _ => r.range(1, 9) }.min(left);
                chunks.push(c);
                left -= c;
            }
        }
        let mut knobs = draw_knobs(&mut r);
        knobs["active"] = json!(r.pick(&[4usize, 8, 16]));
        let mut p = json!({"b": b, "ov": ov, "vw": vw, "rows": n, "chunks": chunks, "malicious": b != 8 && r.chance(1, 2), "dense": b <= 32 || r.chance(1, 4),
            "hot": r.chance(1, 3), "input_seed": r.next_u64() >> 12, "knobs": knobs});
        p["sched"] = SchedSpec::draw(&mut r, 2000 + n as u64 * 300, 10_000_000);
        p
    }

    fn exec(&self, p: &Value, explicit: Option<Vec<u32>>) -> RunRes {
        let (b, ov, vw, n, malicious) = (pu(p, "b"), pu(p, "ov"), pu(p, "vw"), pu(p, "rows"), pb(p, "malicious"));
        let chunks = pvec(p, "chunks");
        let knobs = &p["knobs"];
        if ![(8usize, 8usize), (32, 8), (32, 16), (256, 8), (256, 32)].contains(&(b, ov)) || vw == 0 || vw > ov || vw > 8 || n == 0 || n > 200
            || chunks.is_empty() || chunks.iter().any(|c| *c == 0) || chunks.iter().sum::<usize>() != n || (malicious && b == 8)
            || !pu(knobs, "active").is_power_of_two() || pu(knobs, "active") < 2 || pu(knobs, "read_size") == 0
        {
            return RunRes::invalid("agg: plan");
        }
        let mut r = Rng::sub(pu64(p, "input_seed"), 1);
        let (dense, hot) = (pb(p, "dense"), pb(p, "hot"));
        let hot_bucket = r.below(b);
        let rows: Vec<Vec<u128>> = (0..n)
            .map(|_| {
                let one = r.below(b);
                (0..b).map(|k| {
                    if hot && k == hot_bucket { mask(vw) }            // drives one bucket to saturation
                    else if dense { boundary(&mut r, vw) }
                    else if k == one { boundary(&mut r, vw) }          // attribution-like: one contribution per row
                    else { 0 }
                }).collect()
            })
            .collect();
        let spec = SchedSpec::from_json(&p["sched"], explicit);
        let shape = format!("agg b{b} ov{ov} vw{vw} n{n} c{:?} m{}", chunks, u8::from(malicious));
        let run = match (b, ov) {
            (8, _) => agg_8_8(p, &spec, &rows),
            (32, 8) => agg_32_8(p, &spec, &rows),
            (32, _) => agg_32_16(p, &spec, &rows),
            (256, 8) => agg_256_8(p, &spec, &rows),
            _ => agg_256_32(p, &spec, &rows),
        };
        let o = run.outcome.clone();
        match o.class {
            "finished" => {}
            "deadlock" | "stepcap" => return RunRes::violation("circ_no_progress", format!("{}: aggregation of {n} rows in calls of {chunks:?} rows; {}", o.class, truncate(&o.panic_msg.clone().unwrap_or_default(), 300)), shape, Some(o)),
            _ => return RunRes::violation("circ_panic", format!("panic in a fault-free run: {}", o.panic_msg.clone().unwrap_or_default()), shape, Some(o)),
        }
        let mut per: Vec<&Vec<Vec<(u128, u128)>>> = Vec::new();
        for h in 0..3 {
            match run.res.get(&h) {
                Some(Ok(v)) => per.push(v),
                Some(Err(e)) => return RunRes::violation("circ_spurious_error", format!("helper {} failed in a fault-free aggregation: {e}", h + 1), shape, Some(o)),
                None => return RunRes::violation("circ_no_result", format!("helper {} produced no result", h + 1), shape, Some(o)),
            }
        }
        let mut start = 0;
        let mut saturated = 0u64;
        for (ci, len) in chunks.iter().enumerate() {
            for k in 0..b {
                for h in 0..3 {
                    if per[h][ci][k].1 != per[(h + 1) % 3][ci][k].0 {
                        return RunRes::violation("circ_inconsistent_sharing", format!("call {ci} bucket {k}: H{}.right != H{}.left", h + 1, (h + 1) % 3 + 1), shape, Some(o));
                    }
                }
                let got = per[0][ci][k].0 ^ per[1][ci][k].0 ^ per[2][ci][k].0;
                let total: u128 = rows[start..start + len].iter().map(|r| r[k]).sum();
                let want = total.min(mask(ov));
                saturated += u64::from(total >= mask(ov));
                if got != want {
                    return RunRes::violation("circ_wrong_result",
                        format!("aggregate_values call {ci} ({len} rows of {vw}-bit values, {ov}-bit output, {b} buckets): bucket {k} = {got}, expected min({total}, {})", mask(ov)),
                        shape, Some(o));
                }
            }
            start += len;
        }
        let mut res = RunRes::pass(shape, o.decisions > 0, Some(o));
        res.probe("agg_rows", n as u64);
        res.probe("agg_calls_sharing_counters", u64::from(chunks.len() > 1));
        res.probe("agg_odd_chunk_then_another", u64::from(chunks.len() > 1 && chunks[..chunks.len() - 1].iter().any(|c| c % 2 == 1 && *c > 1)));
        res.probe("agg_saturated_buckets", saturated);
        res
    }
}
