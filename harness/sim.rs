// dsim core: seeded PRNG, the scheduler that decides every interleaving, the run wrapper that turns
// one (scenario, params) pair into one exactly repeatable execution, and small JSON helpers.
//
// Nothing in this file reads a clock or OS entropy; every choice is drawn from generators seeded
// from the run's parameters.

use std::{
    collections::{BTreeMap, HashMap},
    panic,
    sync::{
        Arc, Mutex as StdMutex,
        atomic::{AtomicBool, Ordering as AO},
    },
};

use serde_json::{Value, json};
use shuttle::scheduler::{Schedule, Scheduler, TaskId};

// ------------------------------------------------------------------------------------------------
// PRNG (splitmix64): workload generation and scheduling decisions
// ------------------------------------------------------------------------------------------------

#[derive(Clone, Debug)]
pub struct Rng(pub u64);

impl Rng {
    pub fn new(seed: u64) -> Self {
        Self(seed ^ 0xD1B5_4A32_D192_ED03)
    }
    /// Independent sub-stream `k` of seed `seed`.
    pub fn sub(seed: u64, k: u64) -> Self {
        let mut r = Self::new(seed.wrapping_mul(0x9E37_79B9_7F4A_7C15).wrapping_add(k));
        r.next_u64();
        r
    }
    pub fn next_u64(&mut self) -> u64 {
        self.0 = self.0.wrapping_add(0x9E37_79B9_7F4A_7C15);
        let mut z = self.0;
        z = (z ^ (z >> 30)).wrapping_mul(0xBF58_476D_1CE4_E5B9);
        z = (z ^ (z >> 27)).wrapping_mul(0x94D0_49BB_1331_11EB);
        z ^ (z >> 31)
    }
    /// Uniform in `0..n` (n > 0).
    pub fn below(&mut self, n: usize) -> usize {
        debug_assert!(n > 0);
        (self.next_u64() % (n as u64)) as usize
    }
    /// Uniform in `lo..=hi`.
    pub fn range(&mut self, lo: usize, hi: usize) -> usize {
        lo + self.below(hi - lo + 1)
    }
    pub fn chance(&mut self, num: u64, den: u64) -> bool {
        self.next_u64() % den < num
    }
    pub fn pick<T: Clone>(&mut self, xs: &[T]) -> T {
        xs[self.below(xs.len())].clone()
    }
    pub fn shuffle<T>(&mut self, xs: &mut [T]) {
        for i in (1..xs.len()).rev() {
            let j = self.below(i + 1);
            xs.swap(i, j);
        }
    }
    pub fn perm(&mut self, n: usize) -> Vec<usize> {
        let mut v: Vec<usize> = (0..n).collect();
        self.shuffle(&mut v);
        v
    }
    pub fn bytes(&mut self, n: usize) -> Vec<u8> {
        let mut v = Vec::with_capacity(n);
        while v.len() < n {
            let x = self.next_u64();
            for k in 0..8 {
                if v.len() < n {
                    v.push((x >> (8 * k)) as u8);
                }
            }
        }
        v
    }
}

pub fn fnv(h: u64, x: u64) -> u64 {
    let mut h = h;
    for k in 0..8 {
        h ^= (x >> (8 * k)) & 0xff;
        h = h.wrapping_mul(0x0000_0100_0000_01B3);
    }
    h
}
pub const FNV0: u64 = 0xcbf2_9ce4_8422_2325;

pub fn fnv_bytes(mut h: u64, b: &[u8]) -> u64 {
    for x in b {
        h ^= u64::from(*x);
        h = h.wrapping_mul(0x0000_0100_0000_01B3);
    }
    h
}

// ------------------------------------------------------------------------------------------------
// JSON parameter helpers
// ------------------------------------------------------------------------------------------------

pub fn pu(v: &Value, k: &str) -> usize {
    v.get(k)
        .and_then(Value::as_u64)
        .unwrap_or_else(|| panic!("harness: missing numeric param '{k}' in {v}")) as usize
}
pub fn pu64(v: &Value, k: &str) -> u64 {
    v.get(k)
        .and_then(Value::as_u64)
        .unwrap_or_else(|| panic!("harness: missing numeric param '{k}' in {v}"))
}
pub fn pb(v: &Value, k: &str) -> bool {
    v.get(k).and_then(Value::as_bool).unwrap_or(false)
}
pub fn ps<'a>(v: &'a Value, k: &str) -> &'a str {
    v.get(k)
        .and_then(Value::as_str)
        .unwrap_or_else(|| panic!("harness: missing string param '{k}' in {v}"))
}
pub fn pvec(v: &Value, k: &str) -> Vec<usize> {
    v.get(k)
        .and_then(Value::as_array)
        .unwrap_or_else(|| panic!("harness: missing array param '{k}' in {v}"))
        .iter()
        .map(|x| x.as_u64().unwrap() as usize)
        .collect()
}

// ------------------------------------------------------------------------------------------------
// Scheduling policies
// ------------------------------------------------------------------------------------------------

#[derive(Clone, Debug)]
pub enum Policy {
    /// stay on the current task when runnable, else lowest id (the fallback used after an explicit
    /// choice list is exhausted)
    Default,
    Uniform,
    /// keep running the current task with probability p/1000
    Sticky(u64),
    /// random priorities with `depth` priority change points over an estimated `len` steps
    Pct { depth: usize, len: u64 },
    /// tasks whose hashed id falls in the victim class are not scheduled in steps [from,to) unless
    /// nothing else is runnable; uniform otherwise
    Starve { modulus: u64, from: u64, to: u64 },
}

impl Policy {
    pub fn to_json(&self) -> Value {
        match self {
            Policy::Default => json!({"kind":"default"}),
            Policy::Uniform => json!({"kind":"uniform"}),
            Policy::Sticky(p) => json!({"kind":"sticky","p":p}),
            Policy::Pct { depth, len } => json!({"kind":"pct","depth":depth,"len":len}),
            Policy::Starve { modulus, from, to } => {
                json!({"kind":"starve","mod":modulus,"from":from,"to":to})
            }
        }
    }
    pub fn from_json(v: &Value) -> Self {
        match ps(v, "kind") {
            "default" => Policy::Default,
            "uniform" => Policy::Uniform,
            "sticky" => Policy::Sticky(pu64(v, "p")),
            "pct" => Policy::Pct {
                depth: pu(v, "depth"),
                len: pu64(v, "len"),
            },
            "starve" => Policy::Starve {
                modulus: pu64(v, "mod"),
                from: pu64(v, "from"),
                to: pu64(v, "to"),
            },
            k => panic!("harness: unknown policy {k}"),
        }
    }
    /// Swarm: draw a policy; `est` is a rough estimate of the run length in steps.
    pub fn draw(rng: &mut Rng, est: u64) -> Self {
        match rng.below(10) {
            0..=2 => Policy::Uniform,
            3..=4 => Policy::Sticky(rng.pick(&[500u64, 800, 950, 990])),
            5..=7 => Policy::Pct {
                depth: rng.range(1, 5),
                len: est.max(16),
            },
            _ => {
                let from = rng.below(est.max(2) as usize) as u64;
                Policy::Starve {
                    modulus: rng.range(2, 4) as u64,
                    from,
                    to: from + 1 + rng.below((est.max(2) * 2) as usize) as u64,
                }
            }
        }
    }
}

/// Scheduling part of a run's parameters.
#[derive(Clone, Debug)]
pub struct SchedSpec {
    pub seed: u64,
    pub policy: Policy,
    pub max_steps: u64,
    pub stack: usize,
    /// explicit choice list (indices into the runnable set at multi-choice decisions); when present
    /// it overrides the policy until exhausted, then `Policy::Default` applies
    pub explicit: Option<Vec<u32>>,
}

impl SchedSpec {
    pub fn draw(rng: &mut Rng, est: u64, max_steps: u64) -> Value {
        let policy = Policy::draw(rng, est);
        json!({"seed": rng.next_u64() >> 12, "policy": policy.to_json(), "max_steps": max_steps})
    }
    pub fn from_json(v: &Value, explicit: Option<Vec<u32>>) -> Self {
        Self {
            seed: pu64(v, "seed"),
            policy: Policy::from_json(&v["policy"]),
            max_steps: pu64(v, "max_steps"),
            stack: v.get("stack").and_then(Value::as_u64).unwrap_or(0x10000) as usize,
            explicit,
        }
    }
}

struct Core {
    rng: Rng,
    val_rng: Rng,
    policy: Policy,
    explicit: Option<Vec<u32>>,
    explicit_pos: usize,
    max_steps: u64,
    steps: u64,
    decisions: u64,
    choices: Vec<u32>,
    digest: u64,
    max_runnable: usize,
    max_task: usize,
    stepcap: bool,
    cutoff_taken: bool,
    started: bool,
    // pct
    prio: HashMap<usize, u64>,
    change_points: Vec<u64>,
    next_low: u64,
    starve_salt: u64,
    random_draws: u64,
}

const MAX_RECORDED_CHOICES: usize = 4_000_000;

pub struct SimScheduler {
    core: Arc<StdMutex<Core>>,
    cutoff: Arc<AtomicBool>,
}

impl Core {
    fn default_idx(runnable: &[TaskId], current: Option<TaskId>) -> usize {
        if let Some(c) = current {
            if let Some(i) = runnable.iter().position(|t| *t == c) {
                return i;
            }
        }
        0
    }

    fn choose(&mut self, runnable: &[TaskId], current: Option<TaskId>, yielding: bool) -> usize {
        let n = runnable.len();
        if let Some(list) = &self.explicit {
            let i = if self.explicit_pos < list.len() {
                (list[self.explicit_pos] as usize) % n
            } else {
                Self::default_idx(runnable, current)
            };
            self.explicit_pos += 1;
            return i;
        }
        match self.policy.clone() {
            Policy::Default => Self::default_idx(runnable, current),
            Policy::Uniform => self.rng.below(n),
            Policy::Sticky(p) => {
                if !yielding && self.rng.chance(p, 1000) {
                    Self::default_idx(runnable, current)
                } else {
                    self.rng.below(n)
                }
            }
            Policy::Pct { depth, .. } => {
                // priority change point: demote the task that is running now
                while let Some(&cp) = self.change_points.last() {
                    if cp <= self.steps {
                        self.change_points.pop();
                        if let Some(c) = current {
                            let id: usize = c.into();
                            self.prio.insert(id, self.next_low);
                            self.next_low = self.next_low.saturating_sub(1);
                        }
                    } else {
                        break;
                    }
                }
                if yielding {
                    if let Some(c) = current {
                        let id: usize = c.into();
                        self.prio.insert(id, self.next_low);
                        self.next_low = self.next_low.saturating_sub(1);
                    }
                }
                let mut best = 0usize;
                let mut best_p = 0u64;
                for (i, t) in runnable.iter().enumerate() {
                    let id: usize = (*t).into();
                    let p = match self.prio.get(&id) {
                        Some(p) => *p,
                        None => {
                            let p = (depth as u64 + 1_000_000) + (self.rng.next_u64() >> 8);
                            self.prio.insert(id, p);
                            p
                        }
                    };
                    if i == 0 || p > best_p {
                        best = i;
                        best_p = p;
                    }
                }
                best
            }
            Policy::Starve { modulus, from, to } => {
                if self.steps >= from && self.steps < to {
                    let salt = self.starve_salt;
                    let ok: Vec<usize> = (0..n)
                        .filter(|i| {
                            let id: usize = runnable[*i].into();
                            fnv(FNV0, id as u64 ^ salt) % modulus != 0
                        })
                        .collect();
                    if !ok.is_empty() {
                        return ok[self.rng.below(ok.len())];
                    }
                }
                self.rng.below(n)
            }
        }
    }
}

/// Targeted "slow node" fault: the task that called `mark_current_task_slow` is scheduled only when nothing else can run
/// (one simulated run at a time per process; reset at the start of every run).
pub static LAGGARD: std::sync::atomic::AtomicUsize = std::sync::atomic::AtomicUsize::new(usize::MAX);

/// Hook H5: when set, the in-memory transport pumps every outgoing stream eagerly (see h5_net.rs). Reset per run.
pub static EAGER_NET: AtomicBool = AtomicBool::new(false);

pub fn mark_current_task_slow() {
    if let Some(id) = shuttle::current::get_current_task() {
        let id: usize = id.into();
        LAGGARD.store(id, AO::SeqCst);
    }
}

impl Scheduler for SimScheduler {
    fn new_execution(&mut self) -> Option<Schedule> {
        let mut c = self.core.lock().unwrap();
        if c.started {
            None
        } else {
            c.started = true;
            Some(Schedule::new(0))
        }
    }

    fn next_task(
        &mut self,
        runnable: &[TaskId],
        current: Option<TaskId>,
        is_yielding: bool,
    ) -> Option<TaskId> {
        let mut c = self.core.lock().unwrap();
        c.steps += 1;
        if self.cutoff.load(AO::SeqCst) {
            c.cutoff_taken = true;
            return None;
        }
        if c.steps > c.max_steps {
            c.stepcap = true;
            return None;
        }
        c.max_runnable = c.max_runnable.max(runnable.len());
        // the slow task is left out while anything else can run (choices are indices into the remaining set, so that a
        // recorded schedule replays under the same rule)
        let lag = LAGGARD.load(AO::SeqCst);
        let filtered: Vec<TaskId>;
        let runnable: &[TaskId] = if lag != usize::MAX && runnable.len() > 1 && runnable.iter().any(|t| { let id: usize = (*t).into(); id == lag }) {
            filtered = runnable.iter().copied().filter(|t| { let id: usize = (*t).into(); id != lag }).collect();
            &filtered
        } else {
            runnable
        };
        let n = runnable.len();
        let idx = if n == 1 {
            0
        } else {
            c.decisions += 1;
            let i = c.choose(runnable, current, is_yielding);
            if c.choices.len() < MAX_RECORDED_CHOICES {
                c.choices.push(i as u32);
            }
            let id: usize = runnable[i].into();
            c.digest = fnv(c.digest, id as u64);
            i
        };
        let id: usize = runnable[idx].into();
        c.max_task = c.max_task.max(id);
        Some(runnable[idx])
    }

    fn next_u64(&mut self) -> u64 {
        let mut c = self.core.lock().unwrap();
        c.random_draws += 1;
        c.val_rng.next_u64()
    }
}

// ------------------------------------------------------------------------------------------------
// One simulated run
// ------------------------------------------------------------------------------------------------

#[derive(Clone, Debug)]
pub struct SimOutcome {
    /// finished | panic | deadlock | stepcap | cutoff
    pub class: &'static str,
    pub panic_msg: Option<String>,
    pub steps: u64,
    pub decisions: u64,
    pub choices: Vec<u32>,
    pub digest: u64,
    pub max_runnable: usize,
    pub tasks: usize,
    pub random_draws: u64,
}

impl SimOutcome {
    pub fn to_json(&self) -> Value {
        json!({
            "class": self.class,
            "panic": self.panic_msg.as_ref().map(|m| truncate(m, 400)),
            "steps": self.steps,
            "decisions": self.decisions,
            "sched_digest": format!("{:016x}", self.digest),
            "max_runnable": self.max_runnable,
            "tasks": self.tasks,
            "random_draws": self.random_draws,
        })
    }
    pub fn is_prss_reuse(&self) -> bool {
        self.panic_msg
            .as_ref()
            .is_some_and(|m| m.contains("Generated randomness for index"))
    }
}

pub fn truncate(s: &str, n: usize) -> String {
    if s.len() <= n {
        s.to_string()
    } else {
        let mut e = n;
        while !s.is_char_boundary(e) {
            e -= 1;
        }
        format!("{}…", &s[..e])
    }
}

thread_local! {
    static FIRST_PANIC: std::cell::RefCell<Option<String>> = const { std::cell::RefCell::new(None) };
}

fn install_quiet_hook() {
    static ONCE: std::sync::Once = std::sync::Once::new();
    ONCE.call_once(|| {
        let verbose = std::env::var("VERIF_VERBOSE").is_ok();
        let default = panic::take_hook();
        panic::set_hook(Box::new(move |info| {
            let msg = if let Some(s) = info.payload().downcast_ref::<&str>() {
                (*s).to_string()
            } else if let Some(s) = info.payload().downcast_ref::<String>() {
                s.clone()
            } else {
                "<non-string panic payload>".to_string()
            };
            let loc = info
                .location()
                .map(|l| format!("{}:{}", l.file(), l.line()))
                .unwrap_or_default();
            FIRST_PANIC.with(|p| {
                let mut p = p.borrow_mut();
                if p.is_none() {
                    *p = Some(format!("{msg} @ {loc}"));
                }
            });
            if verbose {
                default(info);
            }
        }));
    });
}

fn reseed_entropy(seed: u64) {
    // Optional: only present when the LD_PRELOAD shim is loaded.
    unsafe extern "C" {
        fn dlsym(
            handle: *mut std::ffi::c_void,
            symbol: *const std::ffi::c_char,
        ) -> *mut std::ffi::c_void;
    }
    let name = b"verif_entropy_reseed\0";
    // RTLD_DEFAULT == NULL on glibc
    let p = unsafe { dlsym(std::ptr::null_mut(), name.as_ptr().cast()) };
    if !p.is_null() {
        let f: extern "C" fn(u64) = unsafe { std::mem::transmute(p) };
        f(seed);
    }
}

pub fn entropy_shim_loaded() -> bool {
    unsafe extern "C" {
        fn dlsym(
            handle: *mut std::ffi::c_void,
            symbol: *const std::ffi::c_char,
        ) -> *mut std::ffi::c_void;
    }
    let name = b"verif_entropy_reseed\0";
    !unsafe { dlsym(std::ptr::null_mut(), name.as_ptr().cast()) }.is_null()
}

/// Execute `f` once under the simulator on a fresh OS thread. `cutoff` may be set by the scenario
/// (from inside the run) to end the execution cleanly at the next scheduling point.
pub fn run_sim<F>(spec: &SchedSpec, cutoff: Arc<AtomicBool>, f: F) -> SimOutcome
where
    F: Fn() + Send + Sync + 'static,
{
    install_quiet_hook();
    let mut change_points = Vec::new();
    let mut rng = Rng::sub(spec.seed, 1);
    if let Policy::Pct { depth, len } = &spec.policy {
        for _ in 0..depth.saturating_sub(1) {
            change_points.push(1 + rng.next_u64() % (*len).max(1));
        }
        change_points.sort_unstable_by(|a, b| b.cmp(a)); // pop() yields the smallest
    }
    let core = Arc::new(StdMutex::new(Core {
        starve_salt: rng.next_u64(),
        rng,
        val_rng: Rng::sub(spec.seed, 2),
        policy: spec.policy.clone(),
        explicit: spec.explicit.clone(),
        explicit_pos: 0,
        max_steps: spec.max_steps,
        steps: 0,
        decisions: 0,
        choices: Vec::new(),
        digest: FNV0,
        max_runnable: 0,
        max_task: 0,
        stepcap: false,
        cutoff_taken: false,
        started: false,
        prio: HashMap::new(),
        change_points,
        next_low: 999_999,
        random_draws: 0,
    }));
    let sched = SimScheduler {
        core: Arc::clone(&core),
        cutoff,
    };
    let stack = spec.stack;
    let seed = spec.seed;
    let handle = std::thread::Builder::new()
        .name("dsim-run".into())
        .stack_size(64 << 20)
        .spawn(move || {
            reseed_entropy(seed);
            LAGGARD.store(usize::MAX, AO::SeqCst);
            EAGER_NET.store(false, AO::SeqCst);
            FIRST_PANIC.with(|p| *p.borrow_mut() = None);
            let mut config = shuttle::Config::new();
            config.stack_size = stack;
            config.failure_persistence = shuttle::FailurePersistence::None;
            config.max_steps = shuttle::MaxSteps::None;
            config.silence_warnings = true;
            let runner = shuttle::Runner::new(sched, config);
            let r = panic::catch_unwind(panic::AssertUnwindSafe(|| {
                runner.run(f);
            }));
            let first = FIRST_PANIC.with(|p| p.borrow_mut().take());
            match r {
                Ok(()) => None,
                Err(payload) => {
                    let pm = if let Some(s) = payload.downcast_ref::<&str>() {
                        (*s).to_string()
                    } else if let Some(s) = payload.downcast_ref::<String>() {
                        s.clone()
                    } else {
                        "<non-string panic payload>".to_string()
                    };
                    Some(first.unwrap_or(pm))
                }
            }
        })
        .expect("spawn dsim-run thread");
    let panic_msg = match handle.join() {
        Ok(m) => m,
        Err(_) => Some("<runner thread panicked outside catch_unwind>".to_string()),
    };
    let c = core.lock().unwrap();
    let class = match &panic_msg {
        Some(m) if m.contains("deadlock! blocked tasks") => "deadlock",
        Some(_) => "panic",
        None if c.stepcap => "stepcap",
        None if c.cutoff_taken => "cutoff",
        None => "finished",
    };
    SimOutcome {
        class,
        panic_msg,
        steps: c.steps,
        decisions: c.decisions,
        choices: c.choices.clone(),
        digest: c.digest,
        max_runnable: c.max_runnable,
        tasks: c.max_task + 1,
        random_draws: c.random_draws,
    }
}

// ------------------------------------------------------------------------------------------------
// Scenario interface and the worker main loop
// ------------------------------------------------------------------------------------------------

#[derive(Clone, Copy, Debug, PartialEq, Eq)]
pub enum Tier {
    Quick,
    Thorough,
}

#[derive(Clone, Debug, PartialEq, Eq)]
pub enum Verdict {
    Pass,
    Violation,
    /// the run could not be judged (harness-level limitation, e.g. step cap where the property does
    /// not promise progress); counted and reported, never an alarm
    Inconclusive,
    /// the parameter set does not describe a legal workload (only reachable through the minimiser)
    Invalid,
}

pub struct RunRes {
    pub verdict: Verdict,
    /// violation class (stable identifier used for minimisation and known-finding signatures)
    pub class: String,
    pub detail: String,
    pub nontrivial: bool,
    /// shape key: distinct (shape, schedule digest) pairs are counted as distinct cases
    pub shape: String,
    pub probes: BTreeMap<String, u64>,
    pub faults: BTreeMap<String, u64>,
    pub sim: Option<SimOutcome>,
    pub extra: Value,
}

impl RunRes {
    pub fn pass(shape: String, nontrivial: bool, sim: Option<SimOutcome>) -> Self {
        Self {
            verdict: Verdict::Pass,
            class: String::new(),
            detail: String::new(),
            nontrivial,
            shape,
            probes: BTreeMap::new(),
            faults: BTreeMap::new(),
            sim,
            extra: Value::Null,
        }
    }
    pub fn violation(class: &str, detail: String, shape: String, sim: Option<SimOutcome>) -> Self {
        Self {
            verdict: Verdict::Violation,
            class: class.to_string(),
            detail,
            nontrivial: true,
            shape,
            probes: BTreeMap::new(),
            faults: BTreeMap::new(),
            sim,
            extra: Value::Null,
        }
    }
    pub fn inconclusive(class: &str, detail: String, shape: String, sim: Option<SimOutcome>) -> Self {
        Self {
            verdict: Verdict::Inconclusive,
            class: class.to_string(),
            detail,
            nontrivial: false,
            shape,
            probes: BTreeMap::new(),
            faults: BTreeMap::new(),
            sim,
            extra: Value::Null,
        }
    }
    pub fn invalid(why: &str) -> Self {
        let mut r = Self::inconclusive("invalid_params", why.to_string(), String::new(), None);
        r.verdict = Verdict::Invalid;
        r
    }
    pub fn probe(&mut self, k: &str, n: u64) {
        *self.probes.entry(k.to_string()).or_insert(0) += n;
    }
    pub fn fault(&mut self, k: &str, n: u64) {
        *self.faults.entry(k.to_string()).or_insert(0) += n;
    }
}

pub trait Scenario: Sync {
    fn name(&self) -> &'static str;
    /// Draw the complete parameter set of run `seed` (workload, knobs, faults, "sched").
    fn generate(&self, seed: u64, tier: Tier) -> Value;
    /// Execute the run described by `params`; `explicit` overrides the schedule policy.
    fn exec(&self, params: &Value, explicit: Option<Vec<u32>>) -> RunRes;
    /// Parameters of a small throw-away run executed once per worker process before the measured runs (see `worker_main`);
    /// `None` = the quick-tier run of a fixed seed.
    fn warmup(&self) -> Option<Value> {
        None
    }
}

/// Worker main: reads the job from the environment and appends one JSON line per run to VERIF_OUT.
///
/// VERIF_JOB = {"scenario": name, "tier": "quick"|"thorough",
///              "seeds": [first, count] | {"list":[..]},
///              "params": {...} (optional: run exactly these parameters instead of generating),
///              "schedule": [..] (optional explicit choice list), "dump_schedule": bool}
pub fn worker_main(registry: &[&'static dyn Scenario]) {
    use std::io::Write;
    let job = match (std::env::var("VERIF_JOB_FILE"), std::env::var("VERIF_JOB")) {
        (Ok(path), _) => std::fs::read_to_string(&path).expect("read VERIF_JOB_FILE"),
        (_, Ok(job)) => job,
        _ => {
            eprintln!("dsim: VERIF_JOB / VERIF_JOB_FILE not set; nothing to do");
            return;
        }
    };
    let job: Value = serde_json::from_str(&job).expect("VERIF_JOB is not JSON");
    let out_path = std::env::var("VERIF_OUT").expect("VERIF_OUT not set");
    let mut out = std::fs::OpenOptions::new()
        .create(true)
        .append(true)
        .open(&out_path)
        .expect("open VERIF_OUT");
    if ps(&job, "scenario") == "__list__" {
        let names: Vec<&str> = registry.iter().map(|s| s.name()).collect();
        writeln!(out, "{}", json!({"scenarios": names})).unwrap();
        return;
    }
    let name = ps(&job, "scenario");
    let Some(sc) = registry.iter().find(|s| s.name() == name) else {
        writeln!(out, "{}", json!({"harness_error": format!("unknown scenario {name}")})).unwrap();
        return;
    };
    // Warm-up: the first world built in a process initialises process-wide state (lazily created globals) that later
    // executions find in place, and a few large runs come out with a different schedule when they are the first execution
    // of the process than when they are not. A small throw-away run makes every measured run a "later" one, so that a
    // result never depends on the run's position in a worker process (replays go through the same path).
    {
        let w = sc.warmup().unwrap_or_else(|| sc.generate(0x5eed, Tier::Quick));
        let _ = sc.exec(&w, None);
    }
    let tier = if job.get("tier").and_then(Value::as_str) == Some("thorough") {
        Tier::Thorough
    } else {
        Tier::Quick
    };
    let seeds: Vec<u64> = match job.get("seeds") {
        Some(Value::Array(a)) => {
            let first = a[0].as_u64().unwrap();
            let count = a[1].as_u64().unwrap();
            (first..first + count).collect()
        }
        Some(v) if v.get("list").is_some() => v["list"]
            .as_array()
            .unwrap()
            .iter()
            .map(|x| x.as_u64().unwrap())
            .collect(),
        _ => vec![0],
    };
    let explicit: Option<Vec<u32>> = job.get("schedule").and_then(Value::as_array).map(|a| {
        a.iter().map(|x| x.as_u64().unwrap() as u32).collect()
    });
    let dump = pb(&job, "dump_schedule");
    let shim = entropy_shim_loaded();
    for seed in seeds {
        writeln!(out, "{}", json!({"start": seed})).unwrap();
        out.flush().unwrap();
        let params = match job.get("params") {
            Some(p) if !p.is_null() => p.clone(),
            _ => sc.generate(seed, tier),
        };
        let t0 = std::time::Instant::now(); // reporting only: never feeds back into the run
        let res = sc.exec(&params, explicit.clone());
        let wall_ms = t0.elapsed().as_millis() as u64;
        let mut line = json!({
            "wall_ms": wall_ms,
            "seed": seed,
            "scenario": name,
            "verdict": match res.verdict { Verdict::Pass => "pass", Verdict::Violation => "violation", Verdict::Inconclusive => "inconclusive", Verdict::Invalid => "invalid" },
            "class": res.class,
            "detail": truncate(&res.detail, 1200),
            "nontrivial": res.nontrivial,
            "shape": res.shape,
            "probes": res.probes,
            "faults": res.faults,
            "params": params,
            "extra": res.extra,
            "shim": shim,
        });
        if let Some(sim) = &res.sim {
            line["sim"] = sim.to_json();
            line["prss_reuse"] = json!(sim.is_prss_reuse());
            if dump || res.verdict == Verdict::Violation {
                line["schedule"] = json!(sim.choices);
            }
        }
        writeln!(out, "{line}").unwrap();
        out.flush().unwrap();
    }
    writeln!(out, "{}", json!({"done": true})).unwrap();
}
