// placeholder
