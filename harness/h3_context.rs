// C16 scenarios — child module of `protocol::context` (reaches `Batcher`).
//
//  * c16_batcher : bare Batcher<Vec<usize>> shared by record tasks; batch closures are harness
//                  futures that finish in an environment-chosen order with a planned verdict
//  * c16_misuse  : one legal history followed by one misuse call, which must be loud

use std::{
    future::Future,
    pin::Pin,
    sync::{
        Arc as StdArc, Mutex as StdMutex,
        atomic::{AtomicBool, Ordering as AO},
    },
    task::{Context as TaskContext, Poll, Waker},
};

use futures::{StreamExt, future::join_all, stream};
use serde_json::{Value, json};

use super::batcher::Batcher;
use crate::{
    error::Error,
    protocol::RecordId,
    seq_join::seq_join,
    sync::{Arc, Mutex},
    verif::sim::*,
};

pub fn scenarios() -> Vec<&'static dyn Scenario> {
    vec![&BatcherScenario, &MisuseScenario]
}

#[derive(Clone, Debug, PartialEq)]
enum Ev {
    Requested(usize),
    ClosureStart(usize, Vec<usize>),
    ClosureEnd(usize),
    Resolved(usize, bool, String),
}

#[derive(Default)]
struct Env {
    events: Vec<Ev>,
    released: Vec<bool>,
    wakers: Vec<Option<Waker>>,
    misuse: Option<Result<(), String>>,
}

struct Token {
    b: usize,
    env: StdArc<StdMutex<Env>>,
}

impl Future for Token {
    type Output = ();
    fn poll(self: Pin<&mut Self>, cx: &mut TaskContext<'_>) -> Poll<()> {
        let mut e = self.env.lock().unwrap();
        if e.released[self.b] {
            Poll::Ready(())
        } else {
            let b = self.b;
            e.wakers[b] = Some(cx.waker().clone());
            Poll::Pending
        }
    }
}

type Shared = Arc<Mutex<Batcher<'static, Vec<usize>>>>;

async fn do_record(batcher: Shared, env: StdArc<StdMutex<Env>>, i: usize, yields: usize, fail: StdArc<Vec<bool>>) {
    for _ in 0..yields {
        shuttle::future::yield_now().await;
    }
    // record something in the batch (what protocols do while computing), then ask for validation
    batcher.lock().unwrap().get_batch(RecordId::from(i)).batch.push(i);
    for _ in 0..(yields % 2) {
        shuttle::future::yield_now().await;
    }
    let fut = {
        let mut b = batcher.lock().unwrap();
        env.lock().unwrap().events.push(Ev::Requested(i));
        let env2 = StdArc::clone(&env);
        b.validate_record(RecordId::from(i), move |idx, batch: Vec<usize>| async move {
            env2.lock().unwrap().events.push(Ev::ClosureStart(idx, batch));
            Token { b: idx, env: StdArc::clone(&env2) }.await;
            env2.lock().unwrap().events.push(Ev::ClosureEnd(idx));
            // the check may fail with any error: a proof failure, a MAC failure (the MAC validator shares this batcher), an
            // internal or transport-level error - the kind rotates with the batch index
            if fail[idx] {
                Err(match idx % 4 {
                    0 => Error::DZKPValidationFailed,
                    1 => Error::MaliciousSecurityCheckFailed,
                    2 => Error::Internal,
                    _ => Error::ShuffleValidationFailed(format!("batch {idx}")),
                })
            } else {
                Ok(())
            }
        })
    };
    let r = fut.await;
    env.lock().unwrap().events.push(Ev::Resolved(i, r.is_ok(), r.err().map(|e| e.to_string()).unwrap_or_default()));
}

pub struct BatcherScenario;

fn gen_common(r: &mut Rng, tier: Tier) -> Value {
    let rpb = r.range(1, 4);
    let total = r.range(1, if tier == Tier::Quick { 12 } else { 20 });
    let nb = total.div_ceil(rpb);
    let style = r.below(3);
    let order = r.perm(total);
    let yields: Vec<usize> = (0..total).map(|_| r.below(4)).collect();
    let fail: Vec<usize> = (0..nb).filter(|_| r.chance(1, 4)).collect();
    let release = r.perm(nb);
    json!({"rpb": rpb, "total": total, "style": style, "order": order, "yields": yields, "fail": fail, "release": release})
}

impl Scenario for BatcherScenario {
    fn name(&self) -> &'static str {
        "c16_batcher"
    }

    fn generate(&self, seed: u64, tier: Tier) -> Value {
        let mut r = Rng::sub(seed, 16_01);
        let mut p = gen_common(&mut r, tier);
        let est = 80 + pu(&p, "total") as u64 * 16;
        p["sched"] = SchedSpec::draw(&mut r, est, 200_000);
        p
    }

    fn exec(&self, p: &Value, explicit: Option<Vec<u32>>) -> RunRes {
        exec_batcher(p, explicit, None)
    }
}

fn valid(p: &Value) -> Option<(usize, usize, usize, usize, Vec<usize>, Vec<usize>, Vec<usize>, Vec<usize>)> {
    let rpb = pu(p, "rpb");
    let total = pu(p, "total");
    if rpb == 0 || total == 0 {
        return None;
    }
    let nb = total.div_ceil(rpb);
    let style = pu(p, "style");
    let order = pvec(p, "order");
    let yields = pvec(p, "yields");
    let fail = pvec(p, "fail");
    let release = pvec(p, "release");
    let mut o = order.clone();
    o.sort_unstable();
    let mut rl = release.clone();
    rl.sort_unstable();
    if o != (0..total).collect::<Vec<_>>() || rl != (0..nb).collect::<Vec<_>>() || yields.len() < total || fail.iter().any(|b| *b >= nb) || style > 2 {
        return None;
    }
    Some((rpb, total, nb, style, order, yields, fail, release))
}

/// misuse: Some((kind, record)) executed after the legal history completed
fn exec_batcher(p: &Value, explicit: Option<Vec<u32>>, misuse: Option<(String, usize)>) -> RunRes {
    let Some((rpb, total, nb, style, order, yields, fail, release)) = valid(p) else {
        return RunRes::invalid("batcher: inconsistent plan");
    };
    let spec = SchedSpec::from_json(&p["sched"], explicit);
    let shape = format!("batcher rpb{rpb} t{total} s{style} f{} m{}", fail.len(), misuse.as_ref().map(|m| m.0.clone()).unwrap_or_default());
    let env = StdArc::new(StdMutex::new(Env {
        released: vec![false; nb],
        wakers: vec![None; nb],
        ..Default::default()
    }));
    let env2 = StdArc::clone(&env);
    let failv: StdArc<Vec<bool>> = StdArc::new((0..nb).map(|b| fail.contains(&b)).collect());
    let (order2, yields2, release2, misuse2) = (order.clone(), yields.clone(), release.clone(), misuse.clone());

    let outcome = run_sim(&spec, StdArc::new(AtomicBool::new(false)), move || {
        let env = StdArc::clone(&env2);
        let failv = StdArc::clone(&failv);
        let (order, yields, release, misuse) = (order2.clone(), yields2.clone(), release2.clone(), misuse2.clone());
        shuttle::future::block_on(async move {
            let batcher: Shared = Arc::new(Batcher::new(rpb, total, Box::new(|_| Vec::new())));
            let env_task = {
                let env = StdArc::clone(&env);
                shuttle::future::spawn(async move {
                    for b in release {
                        {
                            let mut e = env.lock().unwrap();
                            e.released[b] = true;
                            if let Some(w) = e.wakers[b].take() {
                                w.wake();
                            }
                        }
                        shuttle::future::yield_now().await;
                    }
                })
            };
            let mut handles = Vec::new();
            match style {
                0 => {
                    for i in order {
                        handles.push(shuttle::future::spawn(do_record(Arc::clone(&batcher), StdArc::clone(&env), i, yields[i], StdArc::clone(&failv))));
                    }
                }
                1 => {
                    let (b, e, f) = (Arc::clone(&batcher), StdArc::clone(&env), StdArc::clone(&failv));
                    handles.push(shuttle::future::spawn(async move {
                        join_all(order.into_iter().map(|i| do_record(Arc::clone(&b), StdArc::clone(&e), i, yields[i], StdArc::clone(&f)))).await;
                    }));
                }
                _ => {
                    // as the validators drive it: sequential window equal to the batch size
                    let (b, e, f) = (Arc::clone(&batcher), StdArc::clone(&env), StdArc::clone(&failv));
                    handles.push(shuttle::future::spawn(async move {
                        let mut s = seq_join(rpb.try_into().unwrap(), stream::iter(0..total).map(|i| do_record(Arc::clone(&b), StdArc::clone(&e), i, yields[i], StdArc::clone(&f))));
                        while s.next().await.is_some() {}
                    }));
                }
            }
            for h in handles {
                h.await.unwrap();
            }
            env_task.await.unwrap();
            if let Some((kind, rec)) = misuse {
                let r = match kind.as_str() {
                    "get_batch" => {
                        let mut b = batcher.lock().unwrap();
                        let len = b.get_batch(RecordId::from(rec)).batch.len();
                        Ok::<(), String>(()).map(|()| { let _ = len; })
                    }
                    _ => {
                        let fut = batcher.lock().unwrap().validate_record(RecordId::from(rec), |_, _| async { Ok(()) });
                        fut.await.map_err(|e| e.to_string())
                    }
                };
                env.lock().unwrap().misuse = Some(r);
            }
        });
    });

    let e = env.lock().unwrap();
    let ev = &e.events;
    let pos = |want: &dyn Fn(&Ev) -> bool| ev.iter().position(|x| want(x));
    // ---- history oracle ----
    // closure exactly once per batch, with exactly that batch's records
    for b in 0..nb {
        let starts: Vec<&Ev> = ev.iter().filter(|x| matches!(x, Ev::ClosureStart(bb, _) if *bb == b)).collect();
        if starts.len() > 1 {
            return RunRes::violation("batch_checked_twice", format!("batch {b} check invoked {} times", starts.len()), shape, Some(outcome));
        }
        if let Some(Ev::ClosureStart(_, content)) = starts.first() {
            let mut c = content.clone();
            c.sort_unstable();
            let want: Vec<usize> = (b * rpb..((b + 1) * rpb).min(total)).collect();
            if c != want {
                return RunRes::violation("batch_wrong_content", format!("batch {b} check ran over records {c:?}, expected {want:?}"), shape, Some(outcome));
            }
        }
    }
    for (k, x) in ev.iter().enumerate() {
        if let Ev::Resolved(i, ok, err) = x {
            let b = i / rpb;
            // every record of the batch requested validation before
            for j in b * rpb..((b + 1) * rpb).min(total) {
                match pos(&|y| *y == Ev::Requested(j)) {
                    Some(q) if q < k => {}
                    _ => {
                        return RunRes::violation("released_before_batch_complete",
                            format!("record {i} resolved (event {k}) before record {j} of its batch {b} requested validation"), shape, Some(outcome));
                    }
                }
            }
            match pos(&|y| *y == Ev::ClosureEnd(b)) {
                Some(q) if q < k => {}
                _ => {
                    return RunRes::violation("released_before_check_ran", format!("record {i} resolved before the check of batch {b} returned"), shape, Some(outcome));
                }
            }
            if *ok == fail.contains(&b) {
                return RunRes::violation("wrong_verdict", format!("record {i} of batch {b} resolved ok={ok} ({err}) but the check {}", if fail.contains(&b) { "failed" } else { "succeeded" }), shape, Some(outcome));
            }
        }
    }
    let resolved = ev.iter().filter(|x| matches!(x, Ev::Resolved(..))).count();
    if let Some((kind, rec)) = &misuse {
        // the legal part must have completed; the misuse must be loud
        return match (&e.misuse, outcome.class) {
            (Some(Ok(())), _) => RunRes::violation("misuse_silently_accepted", format!("{kind}({rec}) after a complete history (rpb {rpb}, total {total}) returned success"), shape, Some(outcome)),
            (Some(Err(_)), "finished") | (None, "panic") if resolved == total => {
                let mut r = RunRes::pass(shape, true, Some(outcome.clone()));
                r.probe(if outcome.class == "panic" { "misuse_panicked" } else { "misuse_err" }, 1);
                r
            }
            _ => RunRes::violation("misuse_other", format!("{kind}({rec}): outcome {} resolved {resolved}/{total}: {}", outcome.class, outcome.panic_msg.clone().unwrap_or_default()), shape, Some(outcome)),
        };
    }
    match outcome.class {
        "finished" => {
            if resolved != total {
                return RunRes::violation("record_never_released", format!("finished with {resolved} of {total} records resolved"), shape, Some(outcome));
            }
        }
        "deadlock" | "stepcap" => {
            return RunRes::violation("batcher_no_progress",
                format!("{}: {resolved} of {total} records resolved (rpb {rpb}, style {style}); {}", outcome.class, truncate(&outcome.panic_msg.clone().unwrap_or_default(), 200)), shape, Some(outcome));
        }
        _ => {
            return RunRes::violation("batcher_panic", format!("unexpected panic: {}", outcome.panic_msg.clone().unwrap_or_default()), shape, Some(outcome));
        }
    }
    // out-of-order batch completion probe
    let ends: Vec<usize> = ev.iter().filter_map(|x| if let Ev::ClosureEnd(b) = x { Some(*b) } else { None }).collect();
    let mut res = RunRes::pass(shape, outcome.decisions > 0 && total > 1, Some(outcome));
    res.probe("batches_completed_out_of_order", u64::from(ends.windows(2).any(|w| w[0] > w[1])));
    res.probe("partial_last_batch", u64::from(total % rpb != 0));
    res.probe("failing_batches", fail.len() as u64);
    res
}

pub struct MisuseScenario;

impl Scenario for MisuseScenario {
    fn name(&self) -> &'static str {
        "c16_misuse"
    }

    fn generate(&self, seed: u64, tier: Tier) -> Value {
        let mut r = Rng::sub(seed, 16_02);
        let mut p = gen_common(&mut r, tier);
        let total = pu(&p, "total");
        let rpb = pu(&p, "rpb");
        let kind = r.pick(&["twice", "beyond", "get_batch"]);
        let rec = match kind {
            "beyond" => total + r.below(2 * rpb + 1),
            _ => r.below(total),
        };
        p["misuse"] = json!({"kind": kind, "record": rec});
        p["fail"] = json!([]);
        let est = 80 + total as u64 * 16;
        p["sched"] = SchedSpec::draw(&mut r, est, 200_000);
        p
    }

    fn exec(&self, p: &Value, explicit: Option<Vec<u32>>) -> RunRes {
        let kind = ps(&p["misuse"], "kind").to_string();
        let rec = pu(&p["misuse"], "record");
        let total = pu(p, "total");
        if !["twice", "beyond", "get_batch"].contains(&kind.as_str()) || (kind == "beyond") != (rec >= total) {
            return RunRes::invalid("misuse: plan");
        }
        exec_batcher(p, explicit, Some((kind, rec)))
    }
}
