// C05 — the sharded shuffle outputs a re-shared permutation of its input; tampering is detected.
//
// System: real ShardedShuffle::sharded_shuffle on 3 helpers x S shards (semi-honest and malicious
// contexts), 4 row types, arbitrary (seeded) assignment of rows to shards incl. empty shards.
// Faulted runs: one helper rewrites one chunk of its own shuffle traffic (MPC or shard-to-shard).

use std::{
    cell::RefCell,
    collections::BTreeMap,
    sync::{
        Arc as StdArc, Mutex as StdMutex,
        atomic::{AtomicBool, Ordering as AO},
    },
};

use rand::{SeedableRng, rngs::StdRng};
use serde_json::{Value, json};

use crate::{
    ff::{
        U128Conversions,
        boolean_array::{BA3, BA8, BA32, BA64},
    },
    protocol::{
        context::Context,
        ipa_prf::shuffle::{MaliciousShuffleable, ShardedShuffle},
    },
    report::hybrid::{AggregateableHybridReport, IndistinguishableHybridReport},
    secret_sharing::{
        IntoShares, SharedValue,
        replicated::{ReplicatedSecretSharing, semi_honest::AdditiveShare as Replicated},
    },
    sharding::ShardConfiguration,
    test_fixture::{Distribute, Runner, TestWorld, WithShards},
    verif::{
        faults::{self, *},
        sim::*,
        world::*,
    },
};

pub fn scenarios() -> Vec<&'static dyn Scenario> {
    vec![&ShuffleScenario { tampered: false }, &ShuffleScenario { tampered: true }]
}

thread_local! {
    /// row index -> shard, read by `PlanDistribute` (the run executes on one OS thread)
    pub static ASSIGN: RefCell<Vec<usize>> = const { RefCell::new(Vec::new()) };
}

/// `Distribute` seam: rows go where the run's plan says.
pub struct PlanDistribute;
impl Distribute for PlanDistribute {
    fn distribute<const SHARDS: usize, A>(input: Vec<A>) -> [Vec<A>; SHARDS] {
        let mut r: [Vec<A>; SHARDS] = std::array::from_fn(|_| Vec::new());
        ASSIGN.with(|a| {
            let a = a.borrow();
            for (i, x) in input.into_iter().enumerate() {
                r[a.get(i).copied().unwrap_or(i) % SHARDS].push(x);
            }
        });
        r
    }
}

/// A shuffle row type the harness can build from / open to an integer.
pub trait Row: MaliciousShuffleable + std::fmt::Debug + Send {
    const NAME: &'static str;
    const BITS: u32;
    fn make(v: u128, rng: &mut StdRng) -> [Self; 3];
    /// (left value, right value) as integers
    fn lr(&self) -> (u128, u128);
}

fn ba_lr<V: SharedValue + U128Conversions>(x: &Replicated<V>) -> (u128, u128) {
    (x.left().as_u128(), x.right().as_u128())
}

impl Row for Replicated<BA32> {
    const NAME: &'static str = "ba32";
    const BITS: u32 = 32;
    fn make(v: u128, rng: &mut StdRng) -> [Self; 3] {
        BA32::truncate_from(v).share_with(rng)
    }
    fn lr(&self) -> (u128, u128) {
        ba_lr(self)
    }
}
impl Row for Replicated<BA64> {
    const NAME: &'static str = "ba64";
    const BITS: u32 = 64;
    fn make(v: u128, rng: &mut StdRng) -> [Self; 3] {
        BA64::truncate_from(v).share_with(rng)
    }
    fn lr(&self) -> (u128, u128) {
        ba_lr(self)
    }
}
impl Row for IndistinguishableHybridReport<BA8, BA3> {
    const NAME: &'static str = "hybrid112";
    const BITS: u32 = 75;
    fn make(v: u128, rng: &mut StdRng) -> [Self; 3] {
        let mk: [Replicated<BA64>; 3] = BA64::truncate_from(v & 0xffff_ffff_ffff_ffff).share_with(rng);
        let val: [Replicated<BA3>; 3] = BA3::truncate_from((v >> 64) & 7).share_with(rng);
        let bk: [Replicated<BA8>; 3] = BA8::truncate_from((v >> 67) & 0xff).share_with(rng);
        std::array::from_fn(|i| IndistinguishableHybridReport { match_key: mk[i].clone(), value: val[i].clone(), breakdown_key: bk[i].clone() })
    }
    fn lr(&self) -> (u128, u128) {
        let (m, v, b) = (ba_lr(&self.match_key), ba_lr(&self.value), ba_lr(&self.breakdown_key));
        (m.0 | (v.0 << 64) | (b.0 << 67), m.1 | (v.1 << 64) | (b.1 << 67))
    }
}
impl Row for AggregateableHybridReport<BA8, BA3> {
    const NAME: &'static str = "agg32";
    const BITS: u32 = 11;
    fn make(v: u128, rng: &mut StdRng) -> [Self; 3] {
        let val: [Replicated<BA3>; 3] = BA3::truncate_from(v & 7).share_with(rng);
        let bk: [Replicated<BA8>; 3] = BA8::truncate_from((v >> 3) & 0xff).share_with(rng);
        std::array::from_fn(|i| IndistinguishableHybridReport { match_key: (), value: val[i].clone(), breakdown_key: bk[i].clone() })
    }
    fn lr(&self) -> (u128, u128) {
        let (v, b) = (ba_lr(&self.value), ba_lr(&self.breakdown_key));
        (v.0 | (b.0 << 3), v.1 | (b.1 << 3))
    }
}

pub struct ShuffleScenario {
    pub tampered: bool,
}

impl Scenario for ShuffleScenario {
    fn name(&self) -> &'static str {
        if self.tampered { "c05_tamper" } else { "c05_shuffle" }
    }

    fn generate(&self, seed: u64, tier: Tier) -> Value {
        let mut r = Rng::sub(seed, if self.tampered { 5_02 } else { 5_01 });
        let shards = r.pick(&[1usize, 2, 2, 3, 3, 5]);
        let row = r.pick(&["ba32", "ba64", "hybrid112", "agg32"]);
        let maxn = if tier == Tier::Quick { 24 } else { 80 };
        let n = match r.below(6) {
            0 => 0,
            1 => r.range(1, shards.max(2) - 1), // fewer rows than shards
            _ => r.range(1, maxn),
        };
        let n = if self.tampered { n.max(2) } else { n };
        let style = r.below(4);
        let target = r.below(shards);
        let assign: Vec<usize> = (0..n)
            .map(|i| match style {
                0 => i % shards,
                1 => r.below(shards),
                2 => target,                                   // all to one: the other shards are empty
                _ => if shards > 1 { (target + 1 + r.below(shards - 1)) % shards } else { 0 }, // `target` stays empty
            })
            .collect();
        let malicious = self.tampered || r.chance(1, 2);
        let est = 3000 + n as u64 * 500 * shards as u64;
        let mut p = json!({"shards": shards, "row": row, "n": n, "assign": assign, "malicious": malicious,
            "value_seed": r.next_u64() >> 12, "knobs": draw_knobs(&mut r), "node_tasks": r.chance(1, 2)});
        if self.tampered {
            p["corrupt"] = json!(r.below(3));
            p["site_seed"] = json!(r.next_u64() >> 12);
            // "adaptive": H2 or H3 waits until it can know the MAC keys (they are opened per shard) and only then forges a record of
            // the last table it streams (c1 resp. c2) on some shard
            if r.chance(1, 4) {
                p["attack"] = json!("adaptive");
            }
        }
        p["sched"] = SchedSpec::draw(&mut r, est, 3_000_000);
        p
    }

    fn warmup(&self) -> Option<Value> {
        let mut p = json!({"shards": 2, "row": "ba64", "n": 4, "assign": [0, 1, 0, 1], "malicious": true, "value_seed": 1,
            "knobs": {"active": 8, "read_size": 64, "world_seed": 1}, "node_tasks": false,
            "sched": {"seed": 1, "policy": {"kind": "uniform"}, "max_steps": 3_000_000}});
        if self.tampered {
            p["corrupt"] = json!(1);
            p["site_seed"] = json!(1);
        }
        Some(p)
    }

    fn exec(&self, p: &Value, explicit: Option<Vec<u32>>) -> RunRes {
        let shards = pu(p, "shards");
        if ![1usize, 2, 3, 5].contains(&shards) {
            return RunRes::invalid("shuffle: shards");
        }
        macro_rules! by_row {
            ($f:ident) => {
                match ps(p, "row") {
                    "ba32" => $f::<Replicated<BA32>>(p, explicit, self.tampered),
                    "ba64" => $f::<Replicated<BA64>>(p, explicit, self.tampered),
                    "hybrid112" => $f::<IndistinguishableHybridReport<BA8, BA3>>(p, explicit, self.tampered),
                    "agg32" => $f::<AggregateableHybridReport<BA8, BA3>>(p, explicit, self.tampered),
                    _ => RunRes::invalid("shuffle: row type"),
                }
            };
        }
        match shards {
            1 => by_row!(exec_1),
            2 => by_row!(exec_2),
            3 => by_row!(exec_3),
            _ => by_row!(exec_5),
        }
    }
}

/// per node: Ok(rows as (left,right)) or Err(text)
type NodeRes = Result<Vec<(u128, u128)>, String>;

struct OneRun {
    outcome: SimOutcome,
    nodes: BTreeMap<(usize, usize), NodeRes>,
    inv: BTreeMap<ChanKey, ChanStat>,
    fired: Vec<Value>,
    forge_too_early: u64,
    key_shares: BTreeMap<(usize, usize), [u8; 4]>,
}

macro_rules! make_exec {
    ($name:ident, $run:ident, $n:literal) => {
        fn $run<S: Row>(p: &Value, spec: &SchedSpec, values: &[u128], site: Option<Site>, own_keys: Option<(&BTreeMap<(usize, usize), [u8; 4]>, usize)>) -> OneRun {
            let assign = pvec(p, "assign");
            let malicious = pb(p, "malicious");
            let knobs = &p["knobs"];
            let (active, read_size, world_seed) = (pu(knobs, "active"), pu(knobs, "read_size"), pu64(knobs, "world_seed"));
            let value_seed = pu64(p, "value_seed");
            let node_tasks = p.get("node_tasks").and_then(Value::as_bool) == Some(true);
            let log: NodeLog<NodeRes> = node_log();
            let log2 = StdArc::clone(&log);
            let (tamper, interceptor) = match own_keys {
                Some((k, c)) => faults::tamper_knowing_own_keys(site, k, c),
                None => faults::tamper(site),
            };
            let values: Vec<u128> = values.to_vec();
            let outcome = sim_async(spec, StdArc::new(AtomicBool::new(false)), move || {
                let log = StdArc::clone(&log2);
                let (assign, values, interceptor) = (assign.clone(), values.clone(), interceptor.clone());
                async move {
                    let assign2 = assign.clone();
                    ASSIGN.with(|a| *a.borrow_mut() = assign);
                    let world = TestWorld::<WithShards<$n, PlanDistribute>>::with_shards(&world_config(world_seed, active, read_size, Some(interceptor)));
                    // share the rows ourselves so that values are attributable and seeds explicit
                    let mut rng = StdRng::seed_from_u64(value_seed);
                    let mut per_helper: [Vec<S>; 3] = [Vec::new(), Vec::new(), Vec::new()];
                    for v in &values {
                        let [a, b, c] = S::make(*v, &mut rng);
                        per_helper[0].push(a);
                        per_helper[1].push(b);
                        per_helper[2].push(c);
                    }
                    if node_tasks {
                        // every (helper, shard) node is a task of its own: the scheduler also decides which node moves next (the
                        // stock runner polls all nodes from one task in a fixed order). The world is shared by reference counting (see SharedWorld).
                        let keep = SharedWorld::new(world);
                        // SAFETY: `keep` outlives every use in this task, and each node task holds its own clone (declared before, hence
                        // dropped after, everything that borrows from the world)
                        let world: &'static TestWorld<WithShards<$n, PlanDistribute>> = unsafe { keep.get() };
                        let mut per: Vec<Vec<Vec<S>>> = (0..3).map(|_| (0..$n).map(|_| Vec::new()).collect()).collect();
                        let [h0, h1, h2] = per_helper;
                        for (h, rows) in [h0, h1, h2].into_iter().enumerate() {
                            for (i, x) in rows.into_iter().enumerate() {
                                per[h][assign2.get(i).copied().unwrap_or(i) % $n].push(x);
                            }
                        }
                        let mut handles = Vec::new();
                        macro_rules! spawn_nodes {
                            ($ctxs:expr) => {
                                for (h, v) in $ctxs.into_iter().enumerate() {
                                    for (sh, ctx) in v.into_iter().enumerate() {
                                        let rows = std::mem::take(&mut per[h][sh]);
                                        let log = StdArc::clone(&log);
                                        let keep_node = keep.share();
                                        handles.push(shuttle::future::spawn(async move {
                                            let _keep_node = keep_node;
                                            let ctx = ctx;
                                            let key = (role_idx(ctx.role()), usize::from(ctx.shard_id()));
                                            let r = ctx.sharded_shuffle(rows).await;
                                            log.lock().unwrap().insert(key, r.map(|v| v.iter().map(Row::lr).collect()).map_err(|e| e.to_string()));
                                        }));
                                    }
                                }
                            };
                        }
                        if malicious {
                            spawn_nodes!(world.malicious_contexts());
                        } else {
                            spawn_nodes!(world.contexts());
                        }
                        for h in handles {
                            h.await.unwrap();
                        }
                        drop(keep);
                        return;
                    }
                    let input = Shared3(per_helper);
                    let log = &log;
                    if malicious {
                        world
                            .malicious(input, |ctx, rows: Vec<S>| async move {
                                let key = (role_idx(ctx.role()), usize::from(ctx.shard_id()));
                                let r = ctx.sharded_shuffle(rows).await;
                                log.lock().unwrap().insert(key, r.map(|v| v.iter().map(Row::lr).collect()).map_err(|e| e.to_string()));
                            })
                            .await;
                    } else {
                        world
                            .semi_honest(input, |ctx, rows: Vec<S>| async move {
                                let key = (role_idx(ctx.role()), usize::from(ctx.shard_id()));
                                let r = ctx.sharded_shuffle(rows).await;
                                log.lock().unwrap().insert(key, r.map(|v| v.iter().map(Row::lr).collect()).map_err(|e| e.to_string()));
                            })
                            .await;
                    }
                }
            });
            let t = tamper.log.lock().unwrap();
            OneRun { outcome, nodes: log.lock().unwrap().clone(), inv: t.chans.clone(), fired: t.fired.clone(), forge_too_early: t.forge_too_early, key_shares: t.key_shares.clone() }
        }

        fn $name<S: Row>(p: &Value, explicit: Option<Vec<u32>>, tampered: bool) -> RunRes {
            let shards = $n;
            let n = pu(p, "n");
            let assign = pvec(p, "assign");
            let malicious = pb(p, "malicious");
            let knobs = &p["knobs"];
            if assign.len() < n || assign.iter().any(|a| *a >= shards) || !pu(knobs, "active").is_power_of_two() || pu(knobs, "active") < 2 || pu(knobs, "read_size") == 0
                || (tampered && (!malicious || pu(p, "corrupt") > 2))
            {
                return RunRes::invalid("shuffle: plan");
            }
            // unique attributable values (within the row type's width)
            let mut vr = Rng::sub(pu64(p, "value_seed"), 7);
            let mask: u128 = if S::BITS >= 128 { u128::MAX } else { (1u128 << S::BITS) - 1 };
            let mut values: Vec<u128> = Vec::new();
            while values.len() < n {
                let v = (u128::from(vr.next_u64()) | (u128::from(vr.next_u64()) << 64)) & mask;
                if !values.contains(&v) {
                    values.push(v);
                }
                if S::BITS < 12 && values.len() >= (1usize << S::BITS) {
                    break;
                }
            }
            let n = values.len();
            let spec = SchedSpec::from_json(&p["sched"], explicit);
            let empties = (0..shards).filter(|s| !assign[..n].contains(s)).count();
            let shape = format!("shuffle s{shards} {} n{n} m{} e{empties} t{} k{}", S::NAME, u8::from(malicious), u8::from(tampered), u8::from(p.get("node_tasks").and_then(Value::as_bool) == Some(true)));

            // -------- honest run (also the channel inventory for the tampered run) --------
            let honest = $run::<S>(p, &spec, &values, None, None);
            if let Some(v) = judge_honest(&honest, &values, shards, &shape) {
                return v;
            }
            if !tampered {
                let mut res = RunRes::pass(shape, honest.outcome.decisions > 0 && n > 1, Some(honest.outcome));
                res.probe("empty_shards", empties as u64);
                res.probe("rows_fewer_than_shards", u64::from(n < shards && n > 0));
                res.probe("malicious_runs", u64::from(malicious));
                return res;
            }
            // -------- tampered run: same seed, one rewritten chunk of the corrupt helper --------
            let corrupt = pu(p, "corrupt");
            let mut sr = Rng::sub(pu64(p, "site_seed"), 0);
            let adaptive = p.get("attack").and_then(Value::as_str) == Some("adaptive");
            let site = match p.get("site") {
                Some(s) if !s.is_null() => Some(Site::from_json(s)),
                _ if adaptive => {
                    // one of the corrupt helper's last table streams (one per shard that has rows): x2 for H1, c1 for H2, c2 for H3
                    let last = if corrupt == 0 { "/transfer_x_y" } else { "/transfer_c" };
                    let cands: Vec<&ChanKey> = honest.inv.iter().filter(|(k, st)| k.kind == "mpc" && k.src == corrupt && k.gate.ends_with(last) && st.bytes > 0).map(|(k, _)| k).collect();
                    if cands.is_empty() { None } else {
                        let chan = cands[sr.below(cands.len())].clone();
                        Some(Site { chan, chunk: 0, offset: 0, pattern: format!("forge_mac:{}", <S as MaliciousShuffleable>::TAG_OFFSET + 4), stream_off: None })
                    }
                }
                _ => draw_site(&honest.inv, &|k: &ChanKey| k.sender_helper() == corrupt, &mut sr,
                    &["flip:0", "flip:3", "flip:7", "add1", "set0", "setff", "trunc:1", "extend:1"]),
            };
            let Some(site) = site else {
                return RunRes::inconclusive("no_site", "no channel of the corrupt helper in the inventory".into(), shape, Some(honest.outcome));
            };
            let bad = $run::<S>(p, &spec, &values, Some(site.clone()), if adaptive { Some((&honest.key_shares, corrupt)) } else { None });
            if adaptive && bad.fired.is_empty() {
                // the keys were never known to the corrupt helper while its table was still going out: no opportunity
                let mut r = RunRes::pass(shape, true, Some(bad.outcome.clone()));
                r.probe("adaptive_no_opportunity", 1);
                r.probe("adaptive_chunks_before_keys", bad.forge_too_early);
                r.extra = json!({"site": site.to_json()});
                return r;
            }
            let mut res = judge_tampered(&bad, &values, shards, corrupt, &site, &shape);
            if adaptive {
                res.fault("F1_adaptive_forgery_with_opened_keys", 1);
                let flag = |k: &str| bad.fired.iter().any(|f| f.get(k).and_then(Value::as_bool) == Some(true));
                let (by_recipient, by_third) = (flag("key_opened_here_by_recipient"), flag("key_opened_here_by_third_helper"));
                let origin = if by_recipient { "recipient" } else if by_third { "third_helper" } else { "another_shard" };
                res.probe(&format!("adaptive_keys_from_{origin}"), 1);
                if res.verdict == Verdict::Violation {
                    // where did the corrupt helper's knowledge of the keys come from?
                    //  recipient     : the helper still waiting for this very table had already opened its key share
                    //  third_helper  : only the helper that takes no part in this exchange had (it finishes earlier)
                    //  another_shard : nobody on this shard had; the keys are shared by all shards and opened per shard
                    res.class = format!("shuffle_forgery_keys_from_{origin}");
                    res.detail = format!("{} [adaptive: helper {} held this table back until it could know the MAC keys (opened to it by: {origin}), then added a change that every tag check is blind to]",
                        res.detail, corrupt + 1);
                }
            }
            res.extra = json!({"site": site.to_json(), "fired": bad.fired, "inventory_channels": honest.inv.len()});
            res
        }
    };
}
make_exec!(exec_1, run_1, 1);
make_exec!(exec_2, run_2, 2);
make_exec!(exec_3, run_3, 3);
make_exec!(exec_5, run_5, 5);

/// Pre-shared input: lets the Runner hand our own sharings to the helpers.
pub struct Shared3<S>(pub [Vec<S>; 3]);
impl<S: Send> IntoShares<Vec<S>> for Shared3<S> {
    fn share_with<R: rand::Rng>(self, _rng: &mut R) -> [Vec<S>; 3] {
        self.0
    }
}

/// Some(verdict) if the honest run is wrong.
fn judge_honest(run: &OneRun, values: &[u128], shards: usize, shape: &str) -> Option<RunRes> {
    let o = run.outcome.clone();
    match o.class {
        "finished" => {}
        "deadlock" | "stepcap" => {
            return Some(RunRes::violation("shuffle_no_progress", format!("{}: {} of {} nodes returned; {}", o.class, run.nodes.len(), 3 * shards, truncate(&o.panic_msg.clone().unwrap_or_default(), 300)), shape.into(), Some(o)));
        }
        _ => {
            return Some(RunRes::violation("shuffle_panic", format!("panic in a fault-free shuffle: {}", o.panic_msg.clone().unwrap_or_default()), shape.into(), Some(o)));
        }
    }
    let mut out = Vec::new();
    for s in 0..shards {
        let rows: Vec<&Vec<(u128, u128)>> = match (0..3).map(|h| run.nodes.get(&(h, s)).and_then(|r| r.as_ref().ok())).collect::<Option<Vec<_>>>() {
            Some(r) => r,
            None => {
                let e = (0..3).find_map(|h| run.nodes.get(&(h, s)).and_then(|r| r.as_ref().err().cloned())).unwrap_or_default();
                return Some(RunRes::violation("shuffle_spurious_error", format!("fault-free shuffle failed on shard {s}: {e}"), shape.into(), Some(o)));
            }
        };
        if rows[0].len() != rows[1].len() || rows[1].len() != rows[2].len() {
            return Some(RunRes::violation("shuffle_misaligned", format!("shard {s}: helpers hold {}/{}/{} rows", rows[0].len(), rows[1].len(), rows[2].len()), shape.into(), Some(o)));
        }
        for i in 0..rows[0].len() {
            for h in 0..3 {
                if rows[h][i].1 != rows[(h + 1) % 3][i].0 {
                    return Some(RunRes::violation("shuffle_inconsistent_sharing", format!("shard {s} row {i}: H{}.right != H{}.left", h + 1, (h + 1) % 3 + 1), shape.into(), Some(o)));
                }
            }
            out.push(rows[0][i].0 ^ rows[1][i].0 ^ rows[2][i].0);
        }
    }
    let mut a = out.clone();
    a.sort_unstable();
    let mut b = values.to_vec();
    b.sort_unstable();
    if a != b {
        let lost = b.iter().filter(|v| !a.contains(v)).count();
        let extra = a.iter().filter(|v| !b.contains(v)).count();
        return Some(RunRes::violation("shuffle_not_a_permutation", format!("output multiset differs from input: {} rows in, {} out, {lost} lost, {extra} foreign", b.len(), a.len()), shape.into(), Some(o)));
    }
    None
}

fn judge_tampered(run: &OneRun, values: &[u128], shards: usize, corrupt: usize, site: &Site, shape: &str) -> RunRes {
    let o = run.outcome.clone();
    if run.fired.is_empty() {
        return RunRes::inconclusive("tamper_not_delivered", format!("site {} never reached", site.to_json()), shape.into(), Some(o));
    }
    let honest: Vec<usize> = (0..3).filter(|h| *h != corrupt).collect();
    let all_ok = honest.iter().all(|h| (0..shards).all(|s| matches!(run.nodes.get(&(*h, s)), Some(Ok(_)))));
    let mut res = if all_ok {
        // both honest helpers returned rows on every shard after a delivered tamper
        // (what they hold: does it still determine the input multiset? reported as detail)
        let mut out = Vec::new();
        let (a, b) = (honest[0], honest[1]);
        let mut consistent = true;
        for s in 0..shards {
            let (ra, rb) = (run.nodes[&(a, s)].as_ref().unwrap(), run.nodes[&(b, s)].as_ref().unwrap());
            if ra.len() != rb.len() {
                consistent = false;
                continue;
            }
            for i in 0..ra.len() {
                // a = corrupt+1 , b = corrupt+2 (mod 3) when ordered as successors of the corrupt helper
                let (x, y) = if (a + 1) % 3 == b { (ra[i], rb[i]) } else { (rb[i], ra[i]) };
                if x.1 != y.0 {
                    consistent = false;
                }
                out.push(x.0 ^ x.1 ^ y.1);
            }
        }
        out.sort_unstable();
        let mut want = values.to_vec();
        want.sort_unstable();
        let intact = consistent && out == want;
        if intact {
            // accepted, but the honest helpers' shares still determine exactly the input multiset: the rewritten
            // bytes carried no information (padding of a vectorised message, bytes appended after the last
            // record, ...). Counted, not judged.
            let mut r = RunRes::pass(shape.into(), true, Some(o.clone()));
            r.probe("tamper_accepted_output_intact", 1);
            r.probe(&format!("accepted_intact_pattern_{}", site.pattern.split(':').next().unwrap_or("")), 1);
            r
        } else {
            RunRes::violation(
                "shuffle_tamper_accepted_output_changed",
                format!("helper {} altered {} and both honest helpers returned rows on all shards, but their shares no longer determine the input multiset", corrupt + 1, site.to_json()),
                shape.into(), Some(o.clone()))
        }
    } else {
        RunRes::pass(shape.into(), true, Some(o.clone()))
    };
    res.fault("F1_tamper_delivered", 1);
    res.fault(if site.chan.kind == "shard" { "F1_on_shard_traffic" } else { "F1_on_mpc_traffic" }, 1);
    let detected_by_err = honest.iter().any(|h| (0..shards).any(|s| matches!(run.nodes.get(&(*h, s)), Some(Err(_)))));
    res.probe(if detected_by_err { "honest_helper_returned_error" } else { "honest_helper_never_finished" }, u64::from(!all_ok));
    res.probe(&format!("outcome_{}", o.class), 1);
    res
}
