// C12 scenarios — child module of `protocol::dp`.
//
//  * c12_noise   : dp_for_histogram with the discrete-Laplace mechanism on three helpers, output widths
//                  8/16/32 bits, 32/256 buckets: released bucket = exact + three pairwise draws (mod 2^w).
//                  The raw draws are re-derived in a twin world with the same seed from the same PRSS
//                  streams, and the oracle does its own signed arithmetic.
//  * c12_padding : apply_dp_padding on both report kinds: equal dummy counts on all helpers, dummies are
//                  consistent sharings of zero-contribution rows; a forged count message is rejected.
//  * c12_law     : (ride-along, no schedule in it) the sampler and the truncation point against the
//                  documented law on a seeded (epsilon, delta, sensitivity) grid; constructor ranges.

use std::{
    collections::BTreeMap,
    sync::{
        Arc as StdArc, Mutex as StdMutex,
        atomic::{AtomicBool, Ordering as AO},
    },
};

use rand::{SeedableRng, rngs::StdRng};
use serde_json::{Value, json};

use super::{NoiseParams, dp_for_histogram, step::DPStep};
use crate::{
    ff::{
        U128Conversions,
        boolean::Boolean,
        boolean_array::{BA3, BA8, BA16, BA32, BA64},
    },
    helpers::{Direction, Role, query::DpMechanism},
    protocol::{
        context::{Context, UpgradableContext, dzkp_validator::DZKPValidator},
        hybrid::step::HybridStep,
        ipa_prf::oprf_padding::{PaddingParameters, apply_dp_padding, insecure::OPRFPaddingDp},
    },
    report::hybrid::{AggregateableHybridReport, IndistinguishableHybridReport},
    secret_sharing::{
        BitDecomposed, IntoShares, SharedValue, TransposeFrom,
        replicated::{ReplicatedSecretSharing, semi_honest::AdditiveShare as Replicated},
    },
    test_fixture::{Runner, TestWorld},
    verif::{
        c05_shuffle::Shared3,
        faults::{self, *},
        sim::*,
        world::*,
    },
};
use crate::protocol::context::MaliciousProtocolSteps;

pub fn scenarios() -> Vec<&'static dyn Scenario> {
    vec![&NoiseScenario, &PaddingScenario, &LawScenario]
}

// ------------------------------------------------------------------------------------------------
// c12_noise
// ------------------------------------------------------------------------------------------------

pub struct NoiseScenario;

impl Scenario for NoiseScenario {
    fn name(&self) -> &'static str {
        "c12_noise"
    }
    fn generate(&self, seed: u64, _tier: Tier) -> Value {
        let mut r = Rng::sub(seed, 12_01);
        let w = r.pick(&[8usize, 16, 32, 32]);
        let b = r.pick(&[32usize, 256]);
        // epsilon: small values give wide noise (shift n up to a few dozen), large ones concentrate on -1,0,1
        let eps_milli = r.pick(&[300u64, 500, 1000, 2000, 5000, 10000]);
        let mask: u64 = if w == 32 { 0xffff_ffff } else { (1 << w) - 1 };
        let hist: Vec<u64> = (0..b).map(|_| match r.below(6) {
            0 => 0,
            1 => mask,
            2 => mask - r.below(3) as u64,
            _ => r.next_u64() & mask,
        }).collect();
        let mut knobs = draw_knobs(&mut r);
        knobs["active"] = json!(r.pick(&[8usize, 16, 32]));
        json!({"w": w, "b": b, "eps_milli": eps_milli, "hist": hist, "malicious": r.chance(1, 2), "share_seed": r.next_u64() >> 12,
            "knobs": knobs, "sched": SchedSpec::draw(&mut r, 20_000, 20_000_000)})
    }
    fn exec(&self, p: &Value, explicit: Option<Vec<u32>>) -> RunRes {
        match (pu(p, "w"), pu(p, "b")) {
            (8, 32) => noise_exec::<BA8, 32>(p, explicit),
            (8, 256) => noise_exec::<BA8, 256>(p, explicit),
            (16, 32) => noise_exec::<BA16, 32>(p, explicit),
            (16, 256) => noise_exec::<BA16, 256>(p, explicit),
            (32, 32) => noise_exec::<BA32, 32>(p, explicit),
            (32, 256) => noise_exec::<BA32, 256>(p, explicit),
            _ => RunRes::invalid("noise: width/buckets"),
        }
    }
}

const SS_BITS: usize = 3;

trait NoiseInst<const B: usize>: crate::ff::boolean_array::BooleanArray + U128Conversions + IntoShares<Replicated<Self>> {
    fn run(p: &Value, spec: &SchedSpec, hist: &[u64]) -> (SimOutcome, BTreeMap<usize, Result<Vec<(u128, u128)>, String>>, BTreeMap<(usize, usize), Vec<u32>>);
}

macro_rules! noise_inst {
    ($ov:ty, $b:literal) => {
        impl NoiseInst<$b> for $ov {
            fn run(p: &Value, spec: &SchedSpec, hist: &[u64]) -> (SimOutcome, BTreeMap<usize, Result<Vec<(u128, u128)>, String>>, BTreeMap<(usize, usize), Vec<u32>>) {
                let eps = pu64(p, "eps_milli") as f64 / 1000.0;
                let malicious = pb(p, "malicious");
                let knobs = &p["knobs"];
                let (active, read_size, world_seed) = (pu(knobs, "active"), pu(knobs, "read_size"), pu64(knobs, "world_seed"));
                let share_seed = pu64(p, "share_seed");
                let log: StdArc<StdMutex<BTreeMap<usize, Result<Vec<(u128, u128)>, String>>>> = StdArc::new(StdMutex::new(BTreeMap::new()));
                let draws: StdArc<StdMutex<BTreeMap<(usize, usize), Vec<u32>>>> = StdArc::new(StdMutex::new(BTreeMap::new()));
                let (log2, draws2) = (StdArc::clone(&log), StdArc::clone(&draws));
                let hist: Vec<u64> = hist.to_vec();
                let outcome = sim_async(spec, StdArc::new(AtomicBool::new(false)), move || {
                    let (log, draws, hist) = (StdArc::clone(&log2), StdArc::clone(&draws2), hist.clone());
                    async move {
                        let cfg = world_config(world_seed, active, read_size, None);
                        // ---- the system under test ----
                        let world = TestWorld::new_with(&cfg);
                        let mut rng = StdRng::seed_from_u64(share_seed);
                        let mut per: [Vec<Replicated<$ov>>; 3] = [Vec::new(), Vec::new(), Vec::new()];
                        for v in &hist {
                            let s: [Replicated<$ov>; 3] = <$ov>::truncate_from(u128::from(*v)).share_with(&mut rng);
                            for h in 0..3 {
                                per[h].push(s[h].clone());
                            }
                        }
                        let log = &log;
                        macro_rules! body {
                            ($ctx:ident, $rows:ident) => {{
                                let h = role_idx($ctx.role());
                                let arr: [Replicated<$ov>; $b] = $rows.try_into().map_err(|_| ()).expect("B rows");
                                let bits = BitDecomposed::<Replicated<Boolean, $b>>::transposed_from(&arr).unwrap();
                                let r = dp_for_histogram::<_, $b, $ov, SS_BITS>($ctx, bits, DpMechanism::DiscreteLaplace { epsilon: eps }).await;
                                log.lock().unwrap().insert(h, r.map(|v| v.iter().map(|s| (s.left().as_u128(), s.right().as_u128())).collect()).map_err(|e| e.to_string()));
                            }};
                        }
                        if malicious {
                            world.malicious(Shared3(per), |ctx, rows: Vec<Replicated<$ov>>| async move { body!(ctx, rows) }).await;
                        } else {
                            world.semi_honest(Shared3(per), |ctx, rows: Vec<Replicated<$ov>>| async move { body!(ctx, rows) }).await;
                        }
                        drop(world);
                        // ---- twin world, same seed: re-derive the raw draws of every pass from the same PRSS streams ----
                        let twin = TestWorld::new_with(&cfg);
                        let draws = &draws;
                        macro_rules! twin_body {
                            ($ctx:ident) => {{
                                let h = role_idx($ctx.role());
                                let v = $ctx.dzkp_validator(MaliciousProtocolSteps { protocol: &HybridStep::DifferentialPrivacy, validate: &HybridStep::DifferentialPrivacyValidate }, 1);
                                let m = v.context();
                                let sampler = OPRFPaddingDp::new(eps, NoiseParams::default().delta, 2_u32.pow(SS_BITS as u32)).unwrap();
                                for (k, (step, excluded)) in [(DPStep::LaplacePass1, Role::H1), (DPStep::LaplacePass2, Role::H2), (DPStep::LaplacePass3, Role::H3)].into_iter().enumerate() {
                                    let c = m.narrow(&step);
                                    if let Some(dir) = c.role().direction_to(excluded) {
                                        let (mut left, mut right) = c.prss_rng();
                                        let rng = match dir {
                                            Direction::Left => &mut right,
                                            Direction::Right => &mut left,
                                        };
                                        let s: Vec<u32> = (0..$b).map(|_| sampler.sample(rng)).collect();
                                        draws.lock().unwrap().insert((k, h), s);
                                    }
                                }
                                drop(v);
                            }};
                        }
                        if malicious {
                            twin.malicious((), |ctx, ()| async move { twin_body!(ctx) }).await;
                        } else {
                            twin.semi_honest((), |ctx, ()| async move { twin_body!(ctx) }).await;
                        }
                    }
                });
                let l = log.lock().unwrap().clone();
                let d = draws.lock().unwrap().clone();
                (outcome, l, d)
            }
        }
    };
}
noise_inst!(BA8, 32);
noise_inst!(BA8, 256);
noise_inst!(BA16, 32);
noise_inst!(BA16, 256);
noise_inst!(BA32, 32);
noise_inst!(BA32, 256);

fn noise_exec<OV: NoiseInst<B>, const B: usize>(p: &Value, explicit: Option<Vec<u32>>) -> RunRes {
    let w = pu(p, "w");
    let hist: Vec<u64> = p["hist"].as_array().cloned().unwrap_or_default().iter().map(|x| x.as_u64().unwrap_or(0)).collect();
    let eps = pu64(p, "eps_milli") as f64 / 1000.0;
    let knobs = &p["knobs"];
    if hist.len() != B || eps <= 0.0 || eps > 20.0 || !pu(knobs, "active").is_power_of_two() || pu(knobs, "active") < 2 || pu(knobs, "read_size") == 0 {
        return RunRes::invalid("noise: plan");
    }
    let spec = SchedSpec::from_json(&p["sched"], explicit);
    let shape = format!("noise w{w} B{B} eps{} m{}", pu64(p, "eps_milli"), u8::from(pb(p, "malicious")));
    let (outcome, res, draws) = OV::run(p, &spec, &hist);
    match outcome.class {
        "finished" => {}
        "deadlock" | "stepcap" => return RunRes::violation("noise_no_progress", format!("{}: {}", outcome.class, truncate(&outcome.panic_msg.clone().unwrap_or_default(), 300)), shape, Some(outcome)),
        _ => return RunRes::violation("noise_panic", format!("panic: {}", outcome.panic_msg.clone().unwrap_or_default()), shape, Some(outcome)),
    }
    let n = OPRFPaddingDp::new(eps, NoiseParams::default().delta, 8).map(|d| d.get_shift()).unwrap_or(0);
    // the two generating helpers of every pass must have drawn the same values (pairwise generation)
    let mut pass_draws: Vec<Vec<u32>> = Vec::new();
    for k in 0..3usize {
        let gens: Vec<&Vec<u32>> = (0..3).filter_map(|h| draws.get(&(k, h))).collect();
        if gens.len() != 2 || gens[0] != gens[1] {
            return RunRes::violation("noise_pair_disagrees", format!("pass {k}: {} helpers drew noise, equal: {}", gens.len(), gens.len() == 2 && gens[0] == gens[1]), shape, Some(outcome));
        }
        pass_draws.push(gens[0].clone());
    }
    let mut per: Vec<&Vec<(u128, u128)>> = Vec::new();
    for h in 0..3 {
        match res.get(&h) {
            Some(Ok(v)) if v.len() == B => per.push(v),
            other => return RunRes::violation("noise_error", format!("helper {}: {:?}", h + 1, other.map(|r| r.as_ref().map(Vec::len))), shape, Some(outcome)),
        }
    }
    let modulus: i128 = 1i128 << w;
    let mut minus_one = 0u64;
    let mut extremes = 0u64;
    for b in 0..B {
        for h in 0..3 {
            if per[h][b].1 != per[(h + 1) % 3][b].0 {
                return RunRes::violation("noise_inconsistent_sharing", format!("bucket {b}: H{}.right != H{}.left", h + 1, (h + 1) % 3 + 1), shape, Some(outcome));
            }
        }
        let got = (per[0][b].0 ^ per[1][b].0 ^ per[2][b].0) as i128;
        let noise: i128 = (0..3).map(|k| i128::from(pass_draws[k][b]) - i128::from(n)).sum();
        for k in 0..3 {
            let d = i128::from(pass_draws[k][b]) - i128::from(n);
            if d == -1 {
                minus_one += 1;
            }
            if d == -i128::from(n) || d == i128::from(n) {
                extremes += 1;
            }
        }
        let want = (i128::from(hist[b]) + noise).rem_euclid(modulus);
        if got != want {
            let ds: Vec<i128> = (0..3).map(|k| i128::from(pass_draws[k][b]) - i128::from(n)).collect();
            return RunRes::violation("noise_wrong_release",
                format!("bucket {b}: exact {} + draws {ds:?} = {want} (mod 2^{w}), released {got} (epsilon {eps}, truncation point {n})", hist[b]), shape, Some(outcome));
        }
    }
    let mut r = RunRes::pass(shape, outcome.decisions > 0, Some(outcome));
    r.probe("draws_checked", (3 * B) as u64);
    r.probe("draws_equal_minus_one", minus_one);
    r.probe("draws_at_support_edge", extremes);
    r.probe(&format!("width_{w}_runs"), 1);
    r
}

// ------------------------------------------------------------------------------------------------
// c12_padding
// ------------------------------------------------------------------------------------------------

pub struct PaddingScenario;

impl Scenario for PaddingScenario {
    fn name(&self) -> &'static str {
        "c12_padding"
    }
    fn generate(&self, seed: u64, _tier: Tier) -> Value {
        let mut r = Rng::sub(seed, 12_02);
        let mut knobs = draw_knobs(&mut r);
        knobs["active"] = json!(r.pick(&[8usize, 16, 32]));
        let tamper = r.chance(1, 3);
        json!({"kind": r.pick(&["oprf", "agg"]), "rows": r.range(0, 12), "malicious": tamper || r.chance(1, 2), "share_seed": r.next_u64() >> 12,
            "tamper": tamper, "corrupt": r.below(3), "pass": r.below(3),
            "knobs": knobs, "sched": SchedSpec::draw(&mut r, 5_000, 10_000_000)})
    }
    fn exec(&self, p: &Value, explicit: Option<Vec<u32>>) -> RunRes {
        if !["oprf", "agg"].contains(&ps(p, "kind")) || pu(p, "corrupt") > 2 || pu(p, "pass") > 2 {
            return RunRes::invalid("padding: plan");
        }
        if ps(p, "kind") == "oprf" { padding_exec::<IndistinguishableHybridReport<BA8, BA3>>(p, explicit) } else { padding_exec::<AggregateableHybridReport<BA8, BA3>>(p, explicit) }
    }
}

trait PadRow: crate::protocol::ipa_prf::oprf_padding::Paddable + Clone + Send + Sync + 'static {
    fn make(i: usize, rng: &mut StdRng) -> [Self; 3];
    /// (value, breakdown key) as (left,right) pairs
    fn open(&self) -> ((u128, u128), (u128, u128));
}
impl PadRow for IndistinguishableHybridReport<BA8, BA3> {
    fn make(i: usize, rng: &mut StdRng) -> [Self; 3] {
        let mk: [Replicated<BA64>; 3] = BA64::truncate_from(7000 + i as u128).share_with(rng);
        let v: [Replicated<BA3>; 3] = BA3::truncate_from(1 + (i % 7) as u128).share_with(rng);
        let bk: [Replicated<BA8>; 3] = BA8::truncate_from(1 + (i % 200) as u128).share_with(rng);
        std::array::from_fn(|h| IndistinguishableHybridReport { match_key: mk[h].clone(), value: v[h].clone(), breakdown_key: bk[h].clone() })
    }
    fn open(&self) -> ((u128, u128), (u128, u128)) {
        ((self.value.left().as_u128(), self.value.right().as_u128()), (self.breakdown_key.left().as_u128(), self.breakdown_key.right().as_u128()))
    }
}
impl PadRow for AggregateableHybridReport<BA8, BA3> {
    fn make(i: usize, rng: &mut StdRng) -> [Self; 3] {
        let v: [Replicated<BA3>; 3] = BA3::truncate_from(1 + (i % 7) as u128).share_with(rng);
        let bk: [Replicated<BA8>; 3] = BA8::truncate_from(1 + (i % 200) as u128).share_with(rng);
        std::array::from_fn(|h| IndistinguishableHybridReport { match_key: (), value: v[h].clone(), breakdown_key: bk[h].clone() })
    }
    fn open(&self) -> ((u128, u128), (u128, u128)) {
        ((self.value.left().as_u128(), self.value.right().as_u128()), (self.breakdown_key.left().as_u128(), self.breakdown_key.right().as_u128()))
    }
}

type PadRes = Result<Vec<((u128, u128), (u128, u128))>, String>;

fn padding_run<T: PadRow>(p: &Value, spec: &SchedSpec, sites: Vec<Site>) -> (SimOutcome, BTreeMap<usize, PadRes>, BTreeMap<ChanKey, ChanStat>, usize) {
    let rows = pu(p, "rows");
    let malicious = pb(p, "malicious");
    let knobs = &p["knobs"];
    let (active, read_size, world_seed) = (pu(knobs, "active"), pu(knobs, "read_size"), pu64(knobs, "world_seed"));
    let share_seed = pu64(p, "share_seed");
    let (tamper, interceptor) = faults::tamper_many(sites);
    let log: StdArc<StdMutex<BTreeMap<usize, PadRes>>> = StdArc::new(StdMutex::new(BTreeMap::new()));
    let log2 = StdArc::clone(&log);
    let outcome = sim_async(spec, StdArc::new(AtomicBool::new(false)), move || {
        let (log, interceptor) = (StdArc::clone(&log2), interceptor.clone());
        async move {
            let world = TestWorld::new_with(&world_config(world_seed, active, read_size, Some(interceptor)));
            let mut rng = StdRng::seed_from_u64(share_seed);
            let mut per: [Vec<T>; 3] = [Vec::new(), Vec::new(), Vec::new()];
            for i in 0..rows {
                let [a, b, c] = T::make(i, &mut rng);
                per[0].push(a);
                per[1].push(b);
                per[2].push(c);
            }
            let log = &log;
            let params = PaddingParameters::relaxed();
            if malicious {
                world.malicious(Shared3(per), |ctx, rows: Vec<T>| async move {
                    let h = role_idx(ctx.role());
                    let r = apply_dp_padding::<_, T, 256>(ctx, rows, &params).await;
                    log.lock().unwrap().insert(h, r.map(|v| v.iter().map(PadRow::open).collect()).map_err(|e| e.to_string()));
                }).await;
            } else {
                world.semi_honest(Shared3(per), |ctx, rows: Vec<T>| async move {
                    let h = role_idx(ctx.role());
                    let r = apply_dp_padding::<_, T, 256>(ctx, rows, &params).await;
                    log.lock().unwrap().insert(h, r.map(|v| v.iter().map(PadRow::open).collect()).map_err(|e| e.to_string()));
                }).await;
            }
        }
    });
    let t = tamper.log.lock().unwrap();
    (outcome, log.lock().unwrap().clone(), t.chans.clone(), t.fired.len())
}

fn padding_exec<T: PadRow>(p: &Value, explicit: Option<Vec<u32>>) -> RunRes {
    let rows = pu(p, "rows");
    let spec = SchedSpec::from_json(&p["sched"], explicit);
    let shape = format!("padding {} r{rows} m{} t{}", ps(p, "kind"), u8::from(pb(p, "malicious")), u8::from(pb(p, "tamper")));
    let (outcome, res, inv, _) = padding_run::<T>(p, &spec, Vec::new());
    match outcome.class {
        "finished" => {}
        "deadlock" | "stepcap" => return RunRes::violation("padding_no_progress", format!("{}", outcome.class), shape, Some(outcome)),
        _ => return RunRes::violation("padding_panic", format!("panic: {}", outcome.panic_msg.clone().unwrap_or_default()), shape, Some(outcome)),
    }
    let mut per = Vec::new();
    for h in 0..3 {
        match res.get(&h) {
            Some(Ok(v)) => per.push(v),
            other => return RunRes::violation("padding_error", format!("helper {}: {:?}", h + 1, other.map(|r| r.as_ref().map(Vec::len))), shape, Some(outcome)),
        }
    }
    if per[0].len() != per[1].len() || per[1].len() != per[2].len() || per[0].len() < rows {
        return RunRes::violation("padding_counts_differ", format!("helpers hold {}/{}/{} rows after padding {rows} real rows", per[0].len(), per[1].len(), per[2].len()), shape, Some(outcome));
    }
    let total = per[0].len();
    let mut real_seen = 0usize;
    for i in 0..total {
        let mut vals = [0u128; 2];
        for f in 0..2 {
            let s: Vec<(u128, u128)> = (0..3).map(|h| if f == 0 { per[h][i].0 } else { per[h][i].1 }).collect();
            for h in 0..3 {
                if s[h].1 != s[(h + 1) % 3].0 {
                    return RunRes::violation("padding_inconsistent_sharing", format!("row {i} field {f}: H{}.right != H{}.left", h + 1, (h + 1) % 3 + 1), shape, Some(outcome));
                }
            }
            vals[f] = s[0].0 ^ s[1].0 ^ s[2].0;
        }
        if i < rows {
            // the real rows come first and are untouched
            if vals[0] != 1 + (i % 7) as u128 || vals[1] != 1 + (i % 200) as u128 {
                return RunRes::violation("padding_altered_real_row", format!("row {i} now opens to value {} key {}", vals[0], vals[1]), shape, Some(outcome));
            }
            real_seen += 1;
        } else if vals[0] != 0 {
            return RunRes::violation("padding_dummy_contributes", format!("dummy row {i} has value {} (breakdown key {})", vals[0], vals[1]), shape, Some(outcome));
        }
    }
    let dummies = total - real_seen;
    if !pb(p, "tamper") {
        let mut r = RunRes::pass(shape, outcome.decisions > 0, Some(outcome));
        r.probe("dummy_rows", dummies as u64);
        r.probe("padding_runs", 1);
        return r;
    }
    // forged count: the corrupt generating helper reports a different number of dummy rows to the excluded helper
    let corrupt = pu(p, "corrupt");
    let pass = pu(p, "pass");
    let cands: Vec<ChanKey> = inv.keys().filter(|c| c.src == corrupt && c.gate.contains("send_num_fake_records")).cloned().collect();
    if cands.is_empty() {
        return RunRes::inconclusive("no_site", "corrupt helper sends no count in this run".into(), shape, Some(outcome));
    }
    let chan = cands[pass % cands.len()].clone();
    let excluded = chan.dst;
    let site = Site { chan, chunk: 0, offset: 0, pattern: "add1".into(), stream_off: None };
    let (o2, res2, _, fired) = padding_run::<T>(p, &spec, vec![site.clone()]);
    if fired == 0 {
        return RunRes::inconclusive("tamper_not_delivered", "count message not reached".into(), shape, Some(o2));
    }
    let mut r = match res2.get(&excluded) {
        Some(Ok(v)) => RunRes::violation("padding_forged_count_accepted", format!("helper {} told helper {} a different dummy count ({}) and it continued with {} rows", corrupt + 1, excluded + 1, site.to_json(), v.len()), shape, Some(o2.clone())),
        _ => RunRes::pass(shape, true, Some(o2.clone())),
    };
    r.fault("F1_forged_dummy_count", 1);
    r.probe("padding_tamper_runs", 1);
    r
}

// ------------------------------------------------------------------------------------------------
// c12_law: ride-along invariants on the configuration grid (no schedule, no fault in them)
// ------------------------------------------------------------------------------------------------

pub struct LawScenario;

impl Scenario for LawScenario {
    fn name(&self) -> &'static str {
        "c12_law"
    }
    fn generate(&self, seed: u64, _tier: Tier) -> Value {
        let mut r = Rng::sub(seed, 12_03);
        let eps_milli = r.pick(&[10u64, 50, 100, 500, 1000, 2000, 5000, 10000, 20000]);
        let delta_exp = r.range(2, 12);
        let sens = r.pick(&[1usize, 1, 2, 3, 8, 10, 50, 200, 1000]);
        // constructions made earlier in the same process with the same (epsilon, sensitivity) but another delta must not matter
        let history: Vec<usize> = (0..r.below(3)).map(|_| r.range(1, 13)).collect();
        json!({"eps_milli": eps_milli, "delta_exp": delta_exp, "sens": sens, "draws": 20000, "sample_seed": r.next_u64() >> 12, "history": history})
    }
    fn exec(&self, p: &Value, _explicit: Option<Vec<u32>>) -> RunRes {
        let eps = pu64(p, "eps_milli") as f64 / 1000.0;
        let delta = 10f64.powi(-(pu(p, "delta_exp") as i32));
        let sens = pu(p, "sens") as u32;
        let draws = pu(p, "draws");
        if eps <= 0.0 || sens == 0 || sens > 1000 || draws == 0 || draws > 2_000_000 {
            return RunRes::invalid("law: plan");
        }
        let shape = format!("law eps{} d1e-{} s{sens}", pu64(p, "eps_milli"), pu(p, "delta_exp"));
        // --- constructors accept exactly the documented ranges ---
        let np = NoiseParams::new(eps, delta, 8, 0.5, 1.0, 1.0, 1.0, 1.0, 1.0);
        if np.is_err() {
            return RunRes::violation("noise_params_rejects_valid", format!("NoiseParams::new(epsilon {eps}, delta {delta}, ..) was rejected: {:?}", np.err()), shape, None);
        }
        for (e, d, what) in [(0.0, delta, "epsilon = 0"), (-1.0, delta, "epsilon < 0"), (eps, 0.0, "delta = 0"), (eps, -0.5, "delta < 0")] {
            if NoiseParams::new(e, d, 8, 0.5, 1.0, 1.0, 1.0, 1.0, 1.0).is_ok() {
                return RunRes::violation("noise_params_accepts_invalid", format!("NoiseParams::new accepted {what}"), shape, None);
            }
        }
        if OPRFPaddingDp::new(0.0, delta, sens).is_ok() || OPRFPaddingDp::new(eps, 0.0, sens).is_ok() || OPRFPaddingDp::new(eps, 1.0, sens).is_ok() {
            return RunRes::violation("padding_dp_accepts_invalid", "OPRFPaddingDp::new accepted epsilon = 0, delta = 0 or delta = 1".into(), shape, None);
        }
        if p.get("history").is_some() {
            for e in pvec(p, "history") {
                let _ = OPRFPaddingDp::new(eps, 10f64.powi(-(e.clamp(1, 15) as i32)), sens);
            }
        }
        let dp = match OPRFPaddingDp::new(eps, delta, sens) {
            Ok(d) => d,
            Err(e) => return RunRes::violation("padding_dp_rejects_valid", format!("OPRFPaddingDp::new({eps}, {delta}, {sens}) rejected: {e}"), shape, None),
        };
        // --- truncation point: smallest n >= sensitivity whose one-sided outer mass of `sens` points is <= delta ---
        let n = dp.get_shift();
        let tail = |n: u32| -> f64 {
            // pmf(x) = A * r^{|x-n|} on 0..=2n ; outer `sens` values on the left side are x = 0..sens-1, i.e. |x-n| = n..n-sens+1
            let r = (-eps).exp();
            let norm: f64 = 1.0 + 2.0 * (1..=n).map(|k| r.powi(k as i32)).sum::<f64>();
            (0..sens.min(n + 1)).map(|j| r.powi((n - j) as i32)).sum::<f64>() / norm
        };
        let rel = 1e-9;
        if n < sens || tail(n) > delta * (1.0 + rel) {
            return RunRes::violation("truncation_point_too_small", format!("n = {n}: outer mass {} > delta {delta} (or n < sensitivity {sens})", tail(n)), shape, None);
        }
        if n > sens && tail(n - 1) <= delta * (1.0 - rel) {
            return RunRes::violation("truncation_point_not_minimal", format!("n = {n} but n-1 already satisfies the criterion (outer mass {} <= delta {delta})", tail(n - 1)), shape, None);
        }
        // --- the sampler follows pmf ~ exp(-eps |x-n|) on 0..2n: chi-square with a 6-sigma (p < 1e-9) threshold ---
        let mut rng = StdRng::seed_from_u64(pu64(p, "sample_seed"));
        let mut counts: BTreeMap<u32, u64> = BTreeMap::new();
        for _ in 0..draws {
            let x = dp.sample(&mut rng);
            if x > 2 * n {
                return RunRes::violation("sample_outside_support", format!("sample {x} outside 0..={}", 2 * n), shape, None);
            }
            *counts.entry(x).or_default() += 1;
        }
        let r_ = (-eps).exp();
        let norm: f64 = 1.0 + 2.0 * (1..=n).map(|k| r_.powi(k as i32)).sum::<f64>();
        // bins: distance d = |x-n| with expected count >= 8 kept per signed side, the rest pooled
        let mut chi = 0.0;
        let mut dof = 0usize;
        let mut pooled_obs = 0.0;
        let mut pooled_exp = 0.0;
        for x in 0..=2 * n {
            let d = (i64::from(x) - i64::from(n)).unsigned_abs() as i32;
            let e = draws as f64 * r_.powi(d) / norm;
            let o = counts.get(&x).copied().unwrap_or(0) as f64;
            if e >= 8.0 {
                chi += (o - e) * (o - e) / e;
                dof += 1;
            } else {
                pooled_obs += o;
                pooled_exp += e;
            }
            if x > 4000 && e < 1e-12 {
                // far tail of a very wide distribution: nothing more to learn
            }
        }
        if pooled_exp >= 8.0 {
            chi += (pooled_obs - pooled_exp) * (pooled_obs - pooled_exp) / pooled_exp;
            dof += 1;
        } else if pooled_obs > pooled_exp + 12.0 + 8.0 * pooled_exp.sqrt() {
            return RunRes::violation("sample_tail_too_heavy", format!("{pooled_obs} draws in a region of expected mass {pooled_exp:.3}"), shape, None);
        }
        let k = dof.saturating_sub(1).max(1) as f64;
        let z = 6.5;
        let thr = k * (1.0 - 2.0 / (9.0 * k) + z * (2.0 / (9.0 * k)).sqrt()).powi(3);
        if chi > thr {
            return RunRes::violation("sample_law_mismatch", format!("chi-square {chi:.1} over {dof} bins exceeds {thr:.1} (epsilon {eps}, n {n}, {draws} draws)"), shape, None);
        }
        let mut res = RunRes::pass(shape, true, None);
        res.probe("law_configs", 1);
        res.probe("law_draws", draws as u64);
        res.probe("law_support_points_hit", counts.len() as u64);
        res
    }
}
