// C18 — the query lifecycle is a consistent state machine under any sequence of API calls.
//
// System: 3 helpers x S shards, each node a real HelperApp (Processor + request handlers) wired with the
// real in-memory MPC rings (one per shard) and the real shard mesh; the query type is the cheap
// TestMultiply so that query tasks really run (PRSS negotiation + multiplications) and finish.
// A client task issues a seeded history of create / input / status / complete / kill calls against
// arbitrary nodes (F6: a peer or shard rejects the prepare request; F8: kill at seeded points) and a
// reference state machine predicts the class of every answer.

use std::{
    collections::BTreeMap,
    sync::{
        Arc as StdArc, Mutex as StdMutex,
        atomic::{AtomicBool, Ordering as AO},
    },
};

use async_trait::async_trait;
use serde_json::{Value, json};

use crate::{
    AppConfig, AppSetup, HelperApp,
    cli::{LoggingHandle, install_collector},
    ff::{FieldType, Fp31, U128Conversions},
    helpers::{
        ApiError, BodyStream, HandlerBox, HandlerRef, HelperIdentity, HelperResponse, InMemoryMpcNetwork, InMemoryShardNetwork, RequestHandler,
        Transport, TransportIdentity,
        in_memory_config::passthrough,
        query::{QueryConfig, QueryInput, QuerySize, QueryType},
        routing::{Addr, RouteId},
    },
    protocol::QueryId,
    query::QueryStatus,
    secret_sharing::{IntoShares, replicated::semi_honest::AdditiveShare as Replicated},
    sharding::ShardIndex,
    sync::Arc,
    verif::sim::*,
};

pub fn scenarios() -> Vec<&'static dyn Scenario> {
    vec![&LifecycleScenario]
}

pub struct LifecycleScenario;

/// Request-handler wrapper: rejects the `nth` PrepareQuery that reaches this node (F6).
struct Rejecting<I: TransportIdentity> {
    inner: HandlerRef<I>,
    reject: bool,
    seen: StdMutex<usize>,
    nth: usize,
    fired: StdArc<AtomicBool>,
}

#[async_trait]
impl<I: TransportIdentity> RequestHandler<I> for Rejecting<I> {
    async fn handle(&self, req: Addr<I>, data: BodyStream) -> Result<HelperResponse, ApiError> {
        if self.reject && req.route == RouteId::PrepareQuery {
            let k = {
                let mut s = self.seen.lock().unwrap();
                *s += 1;
                *s
            };
            if k == self.nth {
                self.fired.store(true, AO::SeqCst);
                return Err(ApiError::BadRequest("injected: peer rejects prepare".into()));
            }
        }
        self.inner.handle(req, data).await
    }
}

struct Node {
    app: HelperApp,
    mpc_handler: HandlerRef<HelperIdentity>,
}

struct World {
    nodes: Vec<Vec<Node>>, // [helper][shard]
    _keep_mpc: Vec<Arc<dyn RequestHandler<HelperIdentity>>>,
    _keep_shard: Vec<Arc<dyn RequestHandler<ShardIndex>>>,
    _mpc: Vec<InMemoryMpcNetwork>,
    _shard: InMemoryShardNetwork,
}

impl World {
    /// What the HTTP layer does after serving CompleteQuery / KillQuery (ClearOnDrop in net/transport.rs) and what
    /// TestApp does by hand: forget the record streams of that node so that the next query starts clean.
    fn reset_node(&self, h: usize, s: usize) {
        let ids = HelperIdentity::make_three();
        if let Some(t) = self._mpc[s].transport(ids[h]).upgrade() {
            t.reset();
        }
        if let Some(t) = self._shard.transport(ids[h], u32::try_from(s).unwrap()).upgrade() {
            t.reset();
        }
    }
}

fn build(shards: usize, reject_node: Option<(usize, usize, usize)>, fired: &StdArc<AtomicBool>) -> World {
    let ids = HelperIdentity::make_three();
    let mut setups: Vec<Vec<Option<AppSetup>>> = Vec::new();
    let mut mpc_refs: Vec<Vec<HandlerRef<HelperIdentity>>> = Vec::new();
    let mut keep_mpc: Vec<Arc<dyn RequestHandler<HelperIdentity>>> = Vec::new();
    let mut keep_shard: Vec<Arc<dyn RequestHandler<ShardIndex>>> = Vec::new();
    let mut mpc_wrapped: Vec<Vec<HandlerRef<HelperIdentity>>> = Vec::new();
    let mut shard_wrapped: Vec<Vec<HandlerRef<ShardIndex>>> = Vec::new();
    for h in 0..3 {
        let (mut row, mut refs, mut mw, mut sw) = (Vec::new(), Vec::new(), Vec::new(), Vec::new());
        for s in 0..shards {
            let (setup, mpc_h, shard_h) = AppSetup::new(AppConfig::default());
            let rej = reject_node.is_some_and(|r| r.0 == h && r.1 == s);
            let nth = reject_node.map_or(1, |r| r.2);
            let m: Arc<dyn RequestHandler<HelperIdentity>> = Arc::new(Rejecting { inner: mpc_h.clone(), reject: rej, seen: StdMutex::new(0), nth, fired: StdArc::clone(fired) });
            let sh: Arc<dyn RequestHandler<ShardIndex>> = Arc::new(Rejecting { inner: shard_h.clone(), reject: rej, seen: StdMutex::new(0), nth, fired: StdArc::clone(fired) });
            mw.push(HandlerBox::owning_ref(&m));
            sw.push(HandlerBox::owning_ref(&sh));
            keep_mpc.push(m);
            keep_shard.push(sh);
            row.push(Some(setup));
            refs.push(mpc_h);
        }
        setups.push(row);
        mpc_refs.push(refs);
        mpc_wrapped.push(mw);
        shard_wrapped.push(sw);
    }
    // one MPC ring per shard
    let mpc: Vec<InMemoryMpcNetwork> = (0..shards)
        .map(|s| InMemoryMpcNetwork::new([Some(mpc_wrapped[0][s].clone()), Some(mpc_wrapped[1][s].clone()), Some(mpc_wrapped[2][s].clone())]))
        .collect();
    // shard mesh per helper, with the nodes' shard handlers
    let connections = InMemoryShardNetwork::create_shard_connections(u32::try_from(shards).unwrap(), &passthrough());
    let mut h = 0usize;
    let shard_network = connections.map(|(conns, _id)| {
        let v: Vec<_> = conns.into_iter().enumerate().map(|(s, c)| c.start(Some(shard_wrapped[h][s].clone()))).collect();
        h += 1;
        v.into_boxed_slice()
    });
    let shard = InMemoryShardNetwork { shard_network };
    let mut nodes: Vec<Vec<Node>> = Vec::new();
    for h in 0..3 {
        let mut row = Vec::new();
        for s in 0..shards {
            let setup = setups[h][s].take().unwrap();
            let logging_handle = LoggingHandle { metrics_handle: install_collector().unwrap() };
            let app = setup.connect(mpc[s].transport(ids[h]), shard.transport(ids[h], u32::try_from(s).unwrap()), logging_handle);
            row.push(Node { app, mpc_handler: mpc_refs[h][s].clone() });
        }
        nodes.push(row);
    }
    World { nodes, _keep_mpc: keep_mpc, _keep_shard: keep_shard, _mpc: mpc, _shard: shard }
}

// model states
const N: u8 = 0; // no query
const A: u8 = 1; // awaiting inputs
const R: u8 = 2; // running (its task may have finished)
const C: u8 = 3; // completed (observed)
const X: u8 = 4; // unknown (possible residue of a failed create)

fn rank(s: QueryStatus) -> u8 {
    match s {
        QueryStatus::Preparing => 0,
        QueryStatus::AwaitingInputs => 1,
        QueryStatus::Running => 2,
        QueryStatus::AwaitingCompletion => 3,
        QueryStatus::Completed => 4,
    }
}

impl Scenario for LifecycleScenario {
    fn name(&self) -> &'static str {
        "c18_lifecycle"
    }

    fn generate(&self, seed: u64, tier: Tier) -> Value {
        let mut r = Rng::sub(seed, 18_01);
        let shards = r.pick(&[1usize, 1, 2, 2, 3]);
        let depth = r.range(3, if tier == Tier::Quick { 10 } else { 16 });
        let mut ops = Vec::new();
        let style = r.below(4);
        // style 0: happy path with detours; others: random soup biased towards legal moves
        let coord = r.below(3);
        for k in 0..depth {
            let op = if style == 0 && k == 0 {
                json!({"op": "nq", "h": coord, "s": 0})
            } else {
                let h = r.below(3);
                let s = r.below(shards);
                match r.below(12) {
                    0 | 1 => json!({"op": "nq", "h": if r.chance(3, 4) { coord } else { h }, "s": if r.chance(9, 10) { 0 } else { s }}),
                    2 | 3 | 4 => json!({"op": "in_all"}),
                    5 => json!({"op": "in", "h": h, "s": s}),
                    // some status requests come in pairs issued at the same time by two client tasks
                    6 | 7 => if r.chance(1, 3) { json!({"op": "st", "h": h, "twice": true}) } else { json!({"op": "st", "h": h}) },
                    8 | 9 => json!({"op": "co", "h": h, "s": if r.chance(2, 3) { 0 } else { s }}),
                    10 => json!({"op": "kl", "h": h, "s": s}),
                    _ => json!({"op": "co_all"}),
                }
            };
            ops.push(op);
        }
        let reject = if r.chance(1, 4) { json!({"h": r.below(3), "s": r.below(shards), "nth": r.range(1, 2)}) } else { Value::Null };
        json!({"shards": shards, "ops": ops, "reject": reject, "pairs": r.range(1, 4), "yields": r.range(0, 3), "input_seed": r.next_u64() >> 12,
            "sched": SchedSpec::draw(&mut r, 3000, 5_000_000)})
    }

    fn exec(&self, p: &Value, explicit: Option<Vec<u32>>) -> RunRes {
        let shards = pu(p, "shards");
        let ops: Vec<Value> = p["ops"].as_array().cloned().unwrap_or_default();
        let pairs = pu(p, "pairs");
        let yields = pu(p, "yields");
        let reject = if p["reject"].is_null() { None } else { Some((pu(&p["reject"], "h"), pu(&p["reject"], "s"), pu(&p["reject"], "nth"))) };
        if shards == 0 || shards > 3 || ops.is_empty() || pairs == 0 || pairs > 16 || reject.is_some_and(|r| r.0 > 2 || r.1 >= shards || r.2 == 0)
            || ops.iter().any(|o| !["nq", "in", "in_all", "st", "co", "co_all", "kl"].contains(&ps(o, "op")) || (o.get("h").is_some() && pu(o, "h") > 2) || (o.get("s").is_some() && pu(o, "s") >= shards))
        {
            return RunRes::invalid("lifecycle: plan");
        }
        let spec = SchedSpec::from_json(&p["sched"], explicit);
        let shape = format!("lifecycle s{shards} ops{} rej{}", ops.len(), u8::from(reject.is_some()));
        let trace: StdArc<StdMutex<Vec<String>>> = StdArc::new(StdMutex::new(Vec::new()));
        let verdict: StdArc<StdMutex<Option<(String, String)>>> = StdArc::new(StdMutex::new(None));
        let fired = StdArc::new(AtomicBool::new(false));
        let killed_running = StdArc::new(AtomicBool::new(false));
        let failed_create = StdArc::new(AtomicBool::new(false));
        let failed_create2 = StdArc::clone(&failed_create);
        let killed_running2 = StdArc::clone(&killed_running);
        let (trace2, verdict2, fired2, ops2) = (StdArc::clone(&trace), StdArc::clone(&verdict), StdArc::clone(&fired), ops.clone());
        let input_seed = pu64(p, "input_seed");

        let outcome = run_sim(&spec, StdArc::new(AtomicBool::new(false)), move || {
            let (trace, verdict, fired, ops) = (StdArc::clone(&trace2), StdArc::clone(&verdict2), StdArc::clone(&fired2), ops2.clone());
            let killed_running = StdArc::clone(&killed_running2);
            let failed_create = StdArc::clone(&failed_create2);
            shuttle::future::block_on(async move {
                // the world is shared with the (few) client tasks that issue two requests at the same time
                let keep = crate::verif::world::SharedWorld::new(build(shards, reject, &fired));
                // SAFETY: `keep` lives until the end of this block; client tasks hold their own clone
                let world: &World = unsafe { keep.get() };
                let mut m = vec![vec![N; shards]; 3]; // the reference model
                // per shard ring: helpers whose task was started in this generation / killed while possibly unfinished
                let mut started = vec![[false; 3]; shards];
                let mut broken = vec![false; shards];
                // nodes that may hold the residue of a failed create: a task started there belongs to a query its peers
                // never joined, so waiting for it may never end
                let mut tainted = vec![vec![false; shards]; 3];
                let cfg = QueryConfig { size: QuerySize::try_from(2 * pairs).unwrap(), field_type: FieldType::Fp31, query_type: QueryType::TestMultiply };
                let mut rng = <rand::rngs::StdRng as rand::SeedableRng>::seed_from_u64(input_seed);
                let bad = |class: &str, detail: String| {
                    let mut v = verdict.lock().unwrap();
                    if v.is_none() {
                        *v = Some((class.to_string(), detail));
                    }
                };
                let can_finish = |started: &Vec<[bool; 3]>, broken: &Vec<bool>, s: usize| started[s].iter().all(|x| *x) && !broken[s];
                let inputs = |rng: &mut rand::rngs::StdRng| -> [Vec<u8>; 3] {
                    let vals: Vec<Fp31> = (0..2 * pairs).map(|i| Fp31::truncate_from((i as u128 * 7 + 3) % 31)).collect();
                    let shares: [Vec<Replicated<Fp31>>; 3] = vals.into_iter().share_with(rng);
                    shares.map(|v| {
                        use crate::ff::Serializable;
                        let mut out = Vec::new();
                        for x in v {
                            let mut b = generic_array::GenericArray::<u8, <Replicated<Fp31> as Serializable>::Size>::default();
                            x.serialize(&mut b);
                            out.extend_from_slice(&b);
                        }
                        out
                    })
                };
                let mut gen_inputs = inputs(&mut rng);
                for (k, op) in ops.iter().enumerate() {
                    let name = ps(op, "op").to_string();
                    let (h, s) = (op.get("h").and_then(Value::as_u64).unwrap_or(0) as usize, op.get("s").and_then(Value::as_u64).unwrap_or(0) as usize);
                    let before = m.clone();
                    let mut note = String::new();
                    match name.as_str() {
                        "nq" => {
                            let fired_before = fired.load(AO::SeqCst);
                            let r = world.nodes[h][s].app.start_query(cfg).await;
                            let all_none = m.iter().flatten().all(|x| *x == N);
                            let any_unknown = m.iter().flatten().any(|x| *x == X);
                            let rej_live = reject.is_some() && !fired.load(AO::SeqCst);
                            let _ = rej_live;
                            match &r {
                                Ok(_) => {
                                    if !(all_none || any_unknown) || s != 0 {
                                        bad("create_accepted_in_wrong_state", format!("op {k}: new_query on H{}/s{s} succeeded while the model holds {before:?}", h + 1));
                                    }
                                    for row in m.iter_mut() {
                                        for x in row.iter_mut() {
                                            *x = A;
                                        }
                                    }
                                    started = vec![[false; 3]; shards];
                                    broken = vec![false; shards];
                                    tainted = vec![vec![false; shards]; 3];
                                    gen_inputs = inputs(&mut rng);
                                }
                                Err(e) => {
                                    failed_create.store(true, AO::SeqCst);
                                    let injected = fired.load(AO::SeqCst);
                                    if all_none && s == 0 && !injected {
                                        bad("create_rejected_without_reason", format!("op {k}: new_query on H{}/s0 failed on an idle system: {e}", h + 1));
                                    }
                                    if m[h][s] == N || m[h][s] == X {
                                        // failed creation leaves no trace on the node that executed it; peers may keep residue
                                        // (a new generation of the query as far as their tasks are concerned)
                                        {
                                            for (hh, row) in m.iter_mut().enumerate() {
                                                for (ss, x) in row.iter_mut().enumerate() {
                                                    if (hh, ss) != (h, s) && *x == N {
                                                        *x = X;
                                                        tainted[hh][ss] = true;
                                                    }
                                                }
                                            }
                                        }
                                        // the rejection was injected during THIS create on a non-leader shard of another helper: that
                                        // helper's leader shard asked its shards before registering anything, so it holds no query
                                        if let Some((rh, rs, _)) = reject {
                                            if injected && !fired_before && rs != 0 && rh != h && before[rh][0] == N {
                                                m[rh][0] = N;
                                                tainted[rh][0] = false;
                                                let st = world.nodes[rh][0].app.query_status(QueryId).await;
                                                if let Ok(st) = st {
                                                    bad("failed_prepare_left_trace_on_follower", format!("op {k}: shard {rs} of H{} rejected the prepare request, yet H{}/s0 reports status {st:?}", rh + 1, rh + 1));
                                                }
                                            }
                                        }
                                        // observable: a status request on that node must say "no such query" (leader only)
                                        if s == 0 && m[h][s] == N {
                                            let st = world.nodes[h][0].app.query_status(QueryId).await;
                                            if let Ok(st) = st {
                                                bad("failed_create_left_trace", format!("op {k}: new_query on H{}/s0 failed ({e}) but the node still reports status {st:?}", h + 1));
                                            }
                                        }
                                    }
                                }
                            }
                            note = format!("{:?}", r.as_ref().map(|_| ()).map_err(ToString::to_string));
                        }
                        "in" | "in_all" => {
                            let targets: Vec<(usize, usize)> = if name == "in" { vec![(h, s)] } else { (0..3).flat_map(|hh| (0..shards).map(move |ss| (hh, ss))).collect() };
                            for (hh, ss) in targets {
                                let r = world.nodes[hh][ss].app.execute_query(QueryInput::Inline { query_id: QueryId, input_stream: gen_inputs[hh].clone().into() });
                                match (m[hh][ss], &r) {
                                    (A, Ok(())) => {
                                        m[hh][ss] = R;
                                        started[ss][hh] = true;
                                    }
                                    (A, Err(e)) => bad("input_rejected_in_awaiting_inputs", format!("op {k}: inputs to H{}/s{ss} rejected: {e}", hh + 1)),
                                    (N, Ok(())) | (R, Ok(())) | (C, Ok(())) => bad("input_accepted_in_wrong_state", format!("op {k}: inputs accepted by H{}/s{ss} in model state {}", hh + 1, m[hh][ss])),
                                    (X, Ok(())) => {
                                        m[hh][ss] = R;
                                        started[ss][hh] = true;
                                    }
                                    _ => {}
                                }
                                note.push_str(&format!("{}", u8::from(r.is_ok())));
                            }
                        }
                        "st" => {
                            let twice = op.get("twice").and_then(Value::as_bool) == Some(true);
                            let results = if twice {
                                // two clients ask at the same time: each answer must be one a single client could have got
                                let hs: Vec<_> = (0..2)
                                    .map(|_| {
                                        let k2 = keep.share();
                                        shuttle::future::spawn(async move {
                                            let w: &World = unsafe { k2.get() };
                                            let r = w.nodes[h][0].app.query_status(QueryId).await;
                                            drop(k2);
                                            r
                                        })
                                    })
                                    .collect();
                                let mut v = Vec::new();
                                for hnd in hs {
                                    v.push(hnd.await.unwrap());
                                }
                                v
                            } else {
                                vec![world.nodes[h][0].app.query_status(QueryId).await]
                            };
                            let states: Vec<u8> = (0..shards).map(|ss| m[h][ss]).collect();
                            let unknown = states.iter().any(|x| *x == X);
                            for r in &results {
                            match r {
                                Ok(st) => {
                                    if !unknown {
                                        if states.iter().any(|x| *x == N) {
                                            bad("status_for_unknown_query", format!("op {k}: H{} reports {st:?} while the model holds {states:?} (0 = no query)", h + 1));
                                        } else {
                                            // allowed = min over shards, each Running node possibly already Completed
                                            let lo: u8 = states.iter().map(|x| match *x { A => 1, R => 2, _ => 4 }).min().unwrap();
                                            let hi: u8 = states.iter().enumerate().map(|(ss, x)| match *x { A => 1, R => if started[ss].iter().all(|x| *x) { 4 } else { 2 }, _ => 4 }).min().unwrap();
                                            let got = rank(*st);
                                            if got < lo || got > hi || got == 3 || got == 0 {
                                                bad("status_not_minimum_of_shards", format!("op {k}: H{} reports {st:?}; model states of its shards {states:?} allow rank {lo}..={hi}", h + 1));
                                            }
                                        }
                                    }
                                }
                                Err(e) => {
                                    if !unknown && states.iter().all(|x| *x != N) {
                                        bad("status_failed", format!("op {k}: query_status on H{} failed with model states {states:?}: {e}{}", h + 1, if twice { " (one of two simultaneous requests)" } else { "" }));
                                    }
                                }
                            }
                            }
                            note = format!("{:?}", results.iter().map(|r| r.as_ref().map_err(ToString::to_string)).collect::<Vec<_>>());
                        }
                        "co" | "co_all" => {
                            let targets: Vec<(usize, usize)> = if name == "co" { vec![(h, s)] } else { (0..3).map(|hh| (hh, 0)).collect() };
                            for (hh, ss) in targets {
                                // a completion on a running query waits for the task: only issue it when the task can finish
                                let affected: Vec<usize> = if ss == 0 { (0..shards).collect() } else { vec![ss] };
                                let would_block = affected.iter().any(|a| m[hh][*a] == R && (!can_finish(&started, &broken, *a) || tainted[hh][*a])) || affected.iter().any(|a| m[hh][*a] == X);
                                if would_block {
                                    note.push('-');
                                    continue;
                                }
                                let r = world.nodes[hh][ss].app.complete_query(QueryId).await;
                                // the HTTP layer forgets the node's record streams after every complete request; here that is
                                // done whenever the request got past the state check (refused requests touch nothing)
                                if r.is_ok() || matches!(m[hh][ss], R | C | X) {
                                    for a in &affected {
                                        if r.is_ok() || *a == ss {
                                            world.reset_node(hh, *a);
                                        }
                                    }
                                }
                                let mine = m[hh][ss];
                                let shards_ready = affected.iter().all(|a| m[hh][*a] == R || m[hh][*a] == C);
                                match (&r, mine) {
                                    (Ok(_), R) | (Ok(_), C) => {
                                        if !shards_ready {
                                            bad("complete_succeeded_with_unready_shard", format!("op {k}: complete on H{}/s{ss} returned results while its shards are {:?}", hh + 1, affected.iter().map(|a| m[hh][*a]).collect::<Vec<_>>()));
                                        }
                                        for a in &affected {
                                            m[hh][*a] = N;
                                        }
                                    }
                                    (Ok(_), other) => bad("complete_accepted_in_wrong_state", format!("op {k}: complete on H{}/s{ss} returned results in model state {other}", hh + 1)),
                                    (Err(e), R) | (Err(e), C) => {
                                        if shards_ready {
                                            bad("complete_failed", format!("op {k}: complete on H{}/s{ss} failed although every shard was running/completed: {e}", hh + 1));
                                        } else {
                                            // the leader gave up because a shard refused: what it does with its own entry is
                                            // observed below (and a dropped running task must not bring the helper down)
                                            for a in &affected {
                                                if m[hh][*a] == R || m[hh][*a] == C {
                                                    m[hh][*a] = X;
                                                }
                                            }
                                            // the leader forgot a query whose task may still be running, and its record streams are
                                            // gone with it: the ring peers of that task may now wait for it forever
                                            broken[ss] = true;
                                        }
                                    }
                                    (Err(_), A) | (Err(_), N) => {} // refused, state unchanged (checked by later operations)
                                    _ => {}
                                }
                                note.push_str(&format!("{}", u8::from(r.is_ok())));
                            }
                        }
                        "kl" => {
                            let addr = Addr { route: RouteId::KillQuery, origin: None, query_id: Some(QueryId), gate: None, params: String::new() };
                            let r = world.nodes[h][s].mpc_handler.handle(addr, BodyStream::empty()).await;
                            if r.is_ok() {
                                world.reset_node(h, s);
                            }
                            match (&r, m[h][s]) {
                                (Ok(_), N) => bad("kill_of_unknown_query_accepted", format!("op {k}: kill on H{}/s{s} succeeded without a query", h + 1)),
                                (Err(e), A) | (Err(e), R) | (Err(e), C) => bad("kill_refused", format!("op {k}: kill on H{}/s{s} refused in model state {}: {e}", h + 1, m[h][s])),
                                _ => {}
                            }
                            if m[h][s] == R {
                                // its ring peers may now wait forever for it
                                broken[s] = true;
                                // shuttle's JoinHandle::abort only detaches the task (tokio cancels it): the killed task
                                // may still run to its end in the simulator and find its result channel closed
                                killed_running.store(true, AO::SeqCst);
                            }
                            if r.is_ok() || m[h][s] != X {
                                m[h][s] = N;
                            }
                            note = format!("{}", u8::from(r.is_ok()));
                        }
                        _ => unreachable!(),
                    }
                    trace.lock().unwrap().push(format!("{k}:{name}(H{}/s{s})={note} -> {m:?}", h + 1));
                    for _ in 0..yields {
                        shuttle::future::yield_now().await;
                    }
                }
                // let background query tasks run to their end before the world is torn down: a task that
                // returns must not bring the helper down even if nobody waits for it any more
                for _ in 0..200 {
                    shuttle::future::yield_now().await;
                }
                // tear-down: forget whatever is still registered, so that tasks which can never finish (their ring
                // peers never got inputs) do not count as a blocked client
                for h in 0..3 {
                    for s in 0..shards {
                        let addr = Addr { route: RouteId::KillQuery, origin: None, query_id: Some(QueryId), gate: None, params: String::new() };
                        let _ = world.nodes[h][s].mpc_handler.handle(addr, BodyStream::empty()).await;
                    }
                }
                drop(world);
            });
        });
        let tr = trace.lock().unwrap().join(" | ");
        if let Some((class, detail)) = verdict.lock().unwrap().clone() {
            return RunRes::violation(&class, format!("{detail}; history: {}", truncate(&tr, 900)), shape, Some(outcome));
        }
        match outcome.class {
            "finished" => {}
            "panic" if killed_running.load(AO::SeqCst) => {
                // the no-panic clause speaks of histories whose query tasks END BY RETURNING; a task killed while running
                // does not (and under shuttle it is not even cancelled: abort only detaches it). Counted, not judged.
                let mut r = RunRes::pass(shape, true, Some(outcome));
                r.probe("panic_after_kill_of_running_query_not_judged", 1);
                return r;
            }
            "panic" if outcome.panic_msg.as_ref().is_some_and(|m| m.contains("in_memory/transport.rs")) => {
                // the in-memory transport stub unwraps the acknowledgement of a request whose sender gave up
                // (try_join short-circuit after the other peer rejected): a stub limitation, HTTP has no such path
                let mut r = RunRes::pass(shape, true, Some(outcome));
                r.probe("in_memory_transport_ack_artifact", 1);
                return r;
            }
            "panic" if outcome.panic_msg.as_ref().is_some_and(|m| m.contains("stream/collection.rs")) => {
                // one call site, one class: a record stream of a new query generation reaches a helper that still holds
                // streams of an earlier generation (see known_findings.json)
                return RunRes::violation("helper_panics_on_stale_record_stream",
                    format!("{}; failed create earlier in the history: {}; history: {}", truncate(&outcome.panic_msg.clone().unwrap_or_default(), 300), failed_create.load(AO::SeqCst), truncate(&tr, 900)), shape, Some(outcome));
            }
            "panic" => return RunRes::violation("helper_panicked", format!("{}; history: {}", truncate(&outcome.panic_msg.clone().unwrap_or_default(), 300), truncate(&tr, 900)), shape, Some(outcome)),
            c => return RunRes::violation("lifecycle_no_progress", format!("{c}: the client blocked; history: {}", truncate(&tr, 900)), shape, Some(outcome)),
        }
        let mut res = RunRes::pass(shape, outcome.decisions > 0, Some(outcome));
        res.probe("ops_executed", ops.len() as u64);
        res.probe("reject_fired", u64::from(fired.load(AO::SeqCst)));
        res.probe("completions", tr.matches("co").count() as u64);
        if fired.load(AO::SeqCst) {
            res.fault("F6_peer_rejects_prepare", 1);
        }
        res.fault("F8_kill", tr.matches(":kl(").count() as u64);
        res
    }
}
