// C01 — the hybrid attribution result equals the in-the-clear reference (any shard count, any
//        assignment of reports to shards, either security mode, with or without dummy padding).
// C02 — same query in malicious mode with one helper rewriting one chunk it sends: an honest helper
//        errors / never finishes, or the honest helpers' output shares still determine the reference.
//
// System: the real `hybrid_protocol` on 3 helpers x S shards of a TestWorld (all stages: padding,
// sharded shuffle, OPRF + reshard by pseudonym, grouping, padding, shuffle, breakdown reveal,
// aggregation, cross-shard finalize).

use std::{
    collections::BTreeMap,
    sync::{
        Arc as StdArc, Mutex as StdMutex,
        atomic::{AtomicBool, Ordering as AO},
    },
};

use rand::{SeedableRng, rngs::StdRng};
use serde_json::{Value, json};

use crate::{
    error::Error,
    ff::{
        U128Conversions,
        boolean_array::{BA3, BA5, BA8, BA16, BA32, BA64},
    },
    helpers::query::DpMechanism,
    protocol::{
        context::{Context, ShardedMaliciousContext, ShardedSemiHonestContext},
        hybrid::hybrid_protocol,
        ipa_prf::oprf_padding::PaddingParameters,
    },
    report::hybrid::IndistinguishableHybridReport,
    secret_sharing::{
        IntoShares, SharedValue,
        replicated::{ReplicatedSecretSharing, semi_honest::AdditiveShare as Replicated},
    },
    sharding::ShardConfiguration,
    test_fixture::{Runner, TestWorld, WithShards},
    verif::{
        c05_shuffle::{ASSIGN, PlanDistribute, Shared3},
        faults::{self, *},
        sim::*,
        world::*,
    },
};

pub fn scenarios() -> Vec<&'static dyn Scenario> {
    vec![&HybridScenario { tampered: false, deep: false }, &HybridScenario { tampered: true, deep: false }, &HybridScenario { tampered: false, deep: true }]
}

pub struct HybridScenario {
    pub deep: bool,
    pub tampered: bool,
}

/// one report: (is_conversion, match key, breakdown key or value)
type Report = (bool, u64, u32);

/// The statement's plaintext rule, written independently of the repository's `hybrid_in_the_clear`.
pub fn reference(reports: &[Report], bk_bits: u32, v_bits: u32, hv_bits: u32) -> Vec<u128> {
    let buckets = 1usize << bk_bits;
    let mut by_key: BTreeMap<u64, Vec<&Report>> = BTreeMap::new();
    for r in reports {
        by_key.entry(r.1).or_default().push(r);
    }
    let mut hist = vec![0u128; buckets];
    let sat = (1u128 << hv_bits) - 1;
    for (_k, rs) in by_key {
        if rs.len() != 2 {
            continue;
        }
        let value: u128 = rs.iter().map(|r| if r.0 { u128::from(r.2) } else { 0 }).sum::<u128>() % (1 << v_bits);
        let bucket: usize = (rs.iter().map(|r| if r.0 { 0 } else { r.2 as usize }).sum::<usize>()) % buckets;
        hist[bucket] = (hist[bucket] + value).min(sat);
    }
    hist
}

impl Scenario for HybridScenario {
    fn name(&self) -> &'static str {
        if self.deep { "c01_deep" } else if self.tampered { "c02_tamper" } else { "c01_hybrid" }
    }

    fn generate(&self, seed: u64, tier: Tier) -> Value {
        let mut r = Rng::sub(seed, if self.deep { 1_02 } else if self.tampered { 2_01 } else { 1_01 });
        if self.deep {
            // one shard, 65..90 matched pairs on ONE bucket: the bucket's column needs a third layer of the aggregation tree
            // (proof chunks of 8 rows at 256 buckets x 3-bit values), plus a few pairs elsewhere
            let inst = if r.chance(1, 2) { "prod" } else { "small" };
            let hot = r.below(256) as u32;
            let mut reports: Vec<Report> = Vec::new();
            let mut key = 1u64 + (r.next_u64() >> 40);
            // one run in three instead feeds exactly 256 (rarely 512) reports: the row count of the conversion/PRF stage is then an
            // exact multiple of the 256-row conversion chunk
            let exact = r.chance(1, 3);
            if exact {
                let total = if r.chance(1, 5) { 512 } else { 256 };
                while reports.len() < total {
                    key += 1 + r.below(5) as u64;
                    reports.push((false, key, r.below(256) as u32));
                    reports.push((true, key, r.below(8) as u32));
                }
            }
            for _ in 0..(if exact { 0 } else { r.range(65, 90) }) {
                key += 1 + r.below(5) as u64;
                reports.push((false, key, hot));
                reports.push((true, key, r.below(8) as u32));
            }
            for _ in 0..(if exact { 0 } else { r.range(0, 6) }) {
                key += 1 + r.below(5) as u64;
                reports.push((false, key, r.below(256) as u32));
                reports.push((true, key, r.below(8) as u32));
            }
            r.shuffle(&mut reports);
            let n = reports.len();
            let mut knobs = draw_knobs(&mut r);
            knobs["active"] = json!(r.pick(&[8usize, 16, 32]));
            let mut p = json!({"shards": 1, "inst": inst, "reports": reports.iter().map(|x| json!([x.0, x.1, x.2])).collect::<Vec<_>>(),
                "assign": vec![0usize; n], "malicious": r.chance(1, 2), "padding": "none", "share_seed": r.next_u64() >> 12, "knobs": knobs, "dense": true});
            p["sched"] = SchedSpec::draw(&mut r, 60_000 + n as u64 * 8000, 60_000_000);
            p["sched"]["stack"] = json!(0x40000);
            let _ = tier;
            return p;
        }
        let shards = if tier == Tier::Quick { r.pick(&[1usize, 1, 2, 2, 2, 2, 3, 3, 3, 3, 3, 5]) } else { r.pick(&[1usize, 2, 2, 3, 3, 5]) };
        let inst = if r.chance(1, 2) { "prod" } else { "small" }; // (BA8,BA3,BA32,256) | (BA8,BA3,BA8,256): 8-bit buckets saturate at 255
        let (bk_bits, _hv_bits) = if inst == "prod" { (8u32, 32u32) } else { (8, 8) };
        let maxn = if tier == Tier::Quick { 36 } else { 160 };
        // "dense" runs keep every shard busy at every stage (>= 6 matched pairs per shard), which is the regime
        // in which multi-shard queries work at all on this tree (see known findings); the rest is arbitrary
        let dense = shards > 1 && (self.tampered || r.chance(3, 4));
        let class = if dense { 5 + r.below(5) } else { r.below(10) };
        let mut reports: Vec<Report> = Vec::new();
        let mut next_key = 1u64 + (r.next_u64() >> 40);
        let n_target = match class {
            0 => r.range(0, 3),
            4 if inst == "small" => r.range(76, 100), // enough 7-valued pairs on one bucket to pass 255
            _ if dense => 12 * shards + r.range(0, if tier == Tier::Quick { 8 } else { 60 }),
            _ => r.range(2, maxn),
        };
        let hot = r.below(1 << bk_bits) as u32;
        while reports.len() < n_target {
            let key = next_key;
            next_key += 1 + r.below(5) as u64;
            let kind = match class {
                1 => 7,  // only impressions
                2 => 8,  // only conversions
                3 => 9,  // all unmatched singles
                4 => 10, // hot bucket (saturation for the small instance)
                _ if dense => r.pick(&[0usize, 0, 0, 1, 2, 3, 4, 5, 6]),
                _ => r.below(7),
            };
            let bk = || 0;
            let _ = bk;
            match kind {
                0 | 1 | 2 => {
                    // impression + conversion
                    reports.push((false, key, r.below(1 << bk_bits) as u32));
                    reports.push((true, key, r.below(8) as u32));
                }
                3 => {
                    // conversion + conversion: value sum wraps at 3 bits, bucket 0
                    reports.push((true, key, r.range(4, 7) as u32));
                    reports.push((true, key, r.range(4, 7) as u32));
                }
                4 => {
                    // impression + impression: breakdown sum wraps at key width, value 0
                    reports.push((false, key, r.below(1 << bk_bits) as u32));
                    reports.push((false, key, ((1 << bk_bits) - 1 - r.below(3)) as u32));
                }
                5 => {
                    // three or more reports on one key (up to 11): contributes nothing
                    for _ in 0..r.pick(&[3usize, 3, 4, 5, 5, 6, 7, 8, 8, 11]) {
                        if r.chance(1, 2) { reports.push((false, key, r.below(1 << bk_bits) as u32)) } else { reports.push((true, key, r.range(1, 7) as u32)) }
                    }
                }
                6 | 9 => {
                    if r.chance(1, 2) { reports.push((false, key, r.below(1 << bk_bits) as u32)) } else { reports.push((true, key, r.range(1, 7) as u32)) }
                }
                7 => reports.push((false, if r.chance(1, 3) && key > 2 { key - 1 } else { key }, r.below(1 << bk_bits) as u32)),
                8 => reports.push((true, if r.chance(1, 3) && key > 2 { key - 1 } else { key }, r.range(1, 7) as u32)),
                _ => {
                    reports.push((false, key, hot));
                    reports.push((true, key, 7));
                }
            }
        }
        // 8-bit output: a bucket that passes 255 only once the per-shard histograms are merged
        if inst == "small" && shards > 1 && dense && r.chance(1, 2) {
            for _ in 0..r.range(38, 48) {
                let key = next_key;
                next_key += 1 + r.below(5) as u64;
                reports.push((false, key, hot));
                reports.push((true, key, 7));
            }
        }
        // order of submission is irrelevant to the statement: shuffle it
        r.shuffle(&mut reports);
        let n = reports.len();
        // style 5: one shard starts with exactly one report, the others share the rest
        let style = if shards > 1 && n >= 2 * shards && r.chance(1, 5) { 5 } else if dense { r.below(3) } else { r.below(5) };
        let target = r.below(shards);
        let lone = r.below(n.max(1));
        let assign: Vec<usize> = (0..n)
            .map(|i| match style {
                5 => if i == lone { target } else { (target + 1 + i % (shards - 1)) % shards },
                0 => i % shards,
                1 | 2 => r.below(shards),
                3 => target,
                _ => if shards > 1 { (target + 1 + r.below(shards - 1)) % shards } else { 0 },
            })
            .collect();
        let malicious = self.tampered || r.chance(1, 2);
        // dummy-record padding multiplies the cost of a run by ~10: in the quick tier it is mostly exercised on one shard
        let padding = if tier == Tier::Quick {
            if (shards == 1 && r.chance(1, 2)) || (shards == 2 && r.chance(1, 8)) { "relaxed" } else { "none" }
        } else if r.chance(1, 4) { "relaxed" } else { "none" };
        let mut knobs = draw_knobs(&mut r);
        knobs["active"] = json!(r.pick(&[8usize, 16, 32]));
        let est = 60_000 + n as u64 * 8000 * shards as u64;
        let mut p = json!({"shards": shards, "inst": inst, "reports": reports.iter().map(|x| json!([x.0, x.1, x.2])).collect::<Vec<_>>(),
            "assign": assign, "malicious": malicious, "padding": padding, "share_seed": r.next_u64() >> 12, "knobs": knobs, "dense": dense,
            "node_tasks": r.chance(1, 3)});
        if self.tampered {
            p["corrupt"] = json!(r.below(3));
            p["site_seed"] = json!(r.next_u64() >> 12);
            p["attack"] = json!(if r.chance(1, 6) { "prf_lane_cancel" } else { "single" });
            p["replays"] = json!(if tier == Tier::Quick { 2 } else { 4 });
        }
        p["sched"] = SchedSpec::draw(&mut r, est, 60_000_000);
        p["sched"]["stack"] = json!(0x40000);
        p
    }

    fn warmup(&self) -> Option<Value> {
        // the smallest query there is: two matched pairs on one shard
        let mut p = json!({"shards": 1, "inst": "small", "reports": [[false, 5, 3], [true, 5, 2], [false, 9, 1], [true, 9, 4]], "assign": [0, 0, 0, 0],
            "malicious": true, "padding": "none", "share_seed": 1, "knobs": {"active": 8, "read_size": 256, "world_seed": 1}, "dense": true, "node_tasks": false,
            "sched": {"seed": 1, "policy": {"kind": "uniform"}, "max_steps": 60_000_000, "stack": 0x40000}});
        if self.tampered {
            p["corrupt"] = json!(1);
            p["site_seed"] = json!(1);
            p["replays"] = json!(1);
        }
        Some(p)
    }

    fn exec(&self, p: &Value, explicit: Option<Vec<u32>>) -> RunRes {
        match (pu(p, "shards"), ps(p, "inst")) {
            (1, "prod") => exec_prod_1(p, explicit, self.tampered),
            (2, "prod") => exec_prod_2(p, explicit, self.tampered),
            (3, "prod") => exec_prod_3(p, explicit, self.tampered),
            (5, "prod") => exec_prod_5(p, explicit, self.tampered),
            (1, "small") => exec_small_1(p, explicit, self.tampered),
            (2, "small") => exec_small_2(p, explicit, self.tampered),
            (3, "small") => exec_small_3(p, explicit, self.tampered),
            (5, "small") => exec_small_5(p, explicit, self.tampered),
            _ => RunRes::invalid("hybrid: shards/instantiation"),
        }
    }
}

/// per node: Ok(histogram as (left,right) per bucket) or Err
type NodeRes = Result<Vec<(u128, u128)>, String>;

pub struct OneRun {
    pub outcome: SimOutcome,
    pub nodes: BTreeMap<(usize, usize), NodeRes>,
    pub inv: BTreeMap<ChanKey, ChanStat>,
    pub fired: Vec<Value>,
}

fn parse_reports(p: &Value) -> Vec<Report> {
    p["reports"].as_array().cloned().unwrap_or_default().iter().map(|x| (x[0].as_bool().unwrap_or(false), x[1].as_u64().unwrap_or(0), x[2].as_u64().unwrap_or(0) as u32)).collect()
}

macro_rules! make_exec {
    ($exec:ident, $run:ident, $n:literal, $bk:ty, $hv:ty, $b:literal, $bk_bits:literal, $hv_bits:literal) => {
        pub fn $run(p: &Value, spec: &SchedSpec, reports: &[Report], sites: Vec<Site>) -> OneRun {
            let assign = pvec(p, "assign");
            let malicious = pb(p, "malicious");
            let relaxed = ps(p, "padding") == "relaxed";
            let knobs = &p["knobs"];
            let (active, read_size, world_seed) = (pu(knobs, "active"), pu(knobs, "read_size"), pu64(knobs, "world_seed"));
            let share_seed = pu64(p, "share_seed");
            let node_tasks = p.get("node_tasks").and_then(Value::as_bool) == Some(true);
            let log: NodeLog<NodeRes> = node_log();
            let log2 = StdArc::clone(&log);
            let (tamper, interceptor) = faults::tamper_many(sites);
            let reports: Vec<Report> = reports.to_vec();
            let outcome = sim_async(spec, StdArc::new(AtomicBool::new(false)), move || {
                let log = StdArc::clone(&log2);
                let (assign, reports, interceptor) = (assign.clone(), reports.clone(), interceptor.clone());
                async move {
                    let assign2 = assign.clone();
                    ASSIGN.with(|a| *a.borrow_mut() = assign);
                    let world = TestWorld::<WithShards<$n, PlanDistribute>>::with_shards(&world_config(world_seed, active, read_size, Some(interceptor)));
                    let mut rng = StdRng::seed_from_u64(share_seed);
                    let mut per_helper: [Vec<IndistinguishableHybridReport<$bk, BA3>>; 3] = [Vec::new(), Vec::new(), Vec::new()];
                    for (is_conv, key, x) in &reports {
                        let mk: [Replicated<BA64>; 3] = BA64::truncate_from(u128::from(*key)).share_with(&mut rng);
                        let val: [Replicated<BA3>; 3] = BA3::truncate_from(if *is_conv { u128::from(*x) } else { 0 }).share_with(&mut rng);
                        let bk: [Replicated<$bk>; 3] = <$bk>::truncate_from(if *is_conv { 0 } else { u128::from(*x) }).share_with(&mut rng);
                        for h in 0..3 {
                            per_helper[h].push(IndistinguishableHybridReport { match_key: mk[h].clone(), value: val[h].clone(), breakdown_key: bk[h].clone() });
                        }
                    }
                    let padding = if relaxed { PaddingParameters::relaxed() } else { PaddingParameters::no_padding() };
                    if node_tasks {
                        // every (helper, shard) node is a task of its own, so that the scheduler also decides which node moves next
                        // (the stock runner polls all nodes from one task in a fixed order); the world is shared by reference counting (see SharedWorld)
                        let keep = SharedWorld::new(world);
                        // SAFETY: `keep` outlives every use in this task, and each node task holds its own clone (declared before, hence
                        // dropped after, everything that borrows from the world)
                        let world: &'static TestWorld<WithShards<$n, PlanDistribute>> = unsafe { keep.get() };
                        let mut per: Vec<Vec<Vec<IndistinguishableHybridReport<$bk, BA3>>>> = (0..3).map(|_| (0..$n).map(|_| Vec::new()).collect()).collect();
                        let [h0, h1, h2] = per_helper;
                        for (h, rows) in [h0, h1, h2].into_iter().enumerate() {
                            for (i, x) in rows.into_iter().enumerate() {
                                per[h][assign2.get(i).copied().unwrap_or(i) % $n].push(x);
                            }
                        }
                        let mut handles = Vec::new();
                        macro_rules! spawn_nodes {
                            ($ctxs:expr) => {
                                for (h, v) in $ctxs.into_iter().enumerate() {
                                    for (sh, ctx) in v.into_iter().enumerate() {
                                        let rows = std::mem::take(&mut per[h][sh]);
                                        let log = StdArc::clone(&log);
                                        let keep_node = keep.share();
                                        handles.push(shuttle::future::spawn(async move {
                                            let _keep_node = keep_node;
                                            let ctx = ctx;
                                            let key = (role_idx(ctx.role()), usize::from(ctx.shard_id()));
                                            let r = hybrid_protocol::<_, $bk, BA3, $hv, 3, $b>(ctx, rows, DpMechanism::NoDp, padding).await;
                                            let r: NodeRes = r.map(|v| v.iter().map(|s| (s.left().as_u128(), s.right().as_u128())).collect()).map_err(|e| e.to_string());
                                            log.lock().unwrap().insert(key, r);
                                        }));
                                    }
                                }
                            };
                        }
                        if malicious {
                            spawn_nodes!(world.malicious_contexts());
                        } else {
                            spawn_nodes!(world.contexts());
                        }
                        for h in handles {
                            h.await.unwrap();
                        }
                        drop(keep);
                        return;
                    }
                    let log = &log;
                    let conv = |r: Result<Vec<Replicated<$hv>>, Error>| -> NodeRes {
                        r.map(|v| v.iter().map(|s| (s.left().as_u128(), s.right().as_u128())).collect()).map_err(|e| e.to_string())
                    };
                    if malicious {
                        world
                            .malicious(Shared3(per_helper), |ctx: ShardedMaliciousContext<'_>, rows: Vec<IndistinguishableHybridReport<$bk, BA3>>| async move {
                                let key = (role_idx(ctx.role()), usize::from(ctx.shard_id()));
                                let r = hybrid_protocol::<_, $bk, BA3, $hv, 3, $b>(ctx, rows, DpMechanism::NoDp, padding).await;
                                log.lock().unwrap().insert(key, conv(r));
                            })
                            .await;
                    } else {
                        world
                            .semi_honest(Shared3(per_helper), |ctx: ShardedSemiHonestContext<'_>, rows: Vec<IndistinguishableHybridReport<$bk, BA3>>| async move {
                                let key = (role_idx(ctx.role()), usize::from(ctx.shard_id()));
                                let r = hybrid_protocol::<_, $bk, BA3, $hv, 3, $b>(ctx, rows, DpMechanism::NoDp, padding).await;
                                log.lock().unwrap().insert(key, conv(r));
                            })
                            .await;
                    }
                }
            });
            let t = tamper.log.lock().unwrap();
            OneRun { outcome, nodes: log.lock().unwrap().clone(), inv: t.chans.clone(), fired: t.fired.clone() }
        }

        fn $exec(p: &Value, explicit: Option<Vec<u32>>, tampered: bool) -> RunRes {
            let reports = parse_reports(p);
            let assign = pvec(p, "assign");
            let knobs = &p["knobs"];
            if assign.len() < reports.len() || assign.iter().any(|a| *a >= $n) || !pu(knobs, "active").is_power_of_two() || pu(knobs, "active") < 2 || pu(knobs, "read_size") == 0
                || reports.iter().any(|r| if r.0 { r.2 >= 8 } else { r.2 >= (1 << $bk_bits) }) || !["none", "relaxed"].contains(&ps(p, "padding"))
                || (tampered && (!pb(p, "malicious") || pu(p, "corrupt") > 2))
            {
                return RunRes::invalid("hybrid: plan");
            }
            let want = reference(&reports, $bk_bits, 3, $hv_bits);
            let spec = SchedSpec::from_json(&p["sched"], explicit);
            judge(p, $n, $b, &reports, &assign, &want, tampered, &spec, &|sites| $run(p, &spec, &reports, sites))
        }
    };
}

make_exec!(exec_prod_1, run_prod_1, 1, BA8, BA32, 256, 8, 32);
make_exec!(exec_prod_2, run_prod_2, 2, BA8, BA32, 256, 8, 32);
make_exec!(exec_prod_3, run_prod_3, 3, BA8, BA32, 256, 8, 32);
make_exec!(exec_prod_5, run_prod_5, 5, BA8, BA32, 256, 8, 32);
make_exec!(exec_small_1, run_small_1, 1, BA8, BA8, 256, 8, 8);
make_exec!(exec_small_2, run_small_2, 2, BA8, BA8, 256, 8, 8);
make_exec!(exec_small_3, run_small_3, 3, BA8, BA8, 256, 8, 8);
make_exec!(exec_small_5, run_small_5, 5, BA8, BA8, 256, 8, 8);

#[allow(clippy::too_many_arguments)]
fn judge(p: &Value, shards: usize, buckets: usize, reports: &[Report], assign: &[usize], want: &[u128], tampered: bool, _spec: &SchedSpec, run: &dyn Fn(Vec<Site>) -> OneRun) -> RunRes {
    let n = reports.len();
    let empties = (0..shards).filter(|s| !assign[..n].contains(s)).count();
    let pairs = {
        let mut m: BTreeMap<u64, usize> = BTreeMap::new();
        for r in reports {
            *m.entry(r.1).or_default() += 1;
        }
        m.values().filter(|c| **c == 2).count()
    };
    let shape = format!("hybrid s{shards} {} n{n} pairs{pairs} m{} pad{} e{empties} t{} k{}", ps(p, "inst"), u8::from(pb(p, "malicious")), ps(p, "padding"), u8::from(tampered), u8::from(p.get("node_tasks").and_then(Value::as_bool) == Some(true)));
    let honest = run(Vec::new());
    // ---------- fault-free oracle ----------
    {
        let o = honest.outcome.clone();
        let ctx_txt = format!("{n} reports, {pairs} matched pairs, {shards} shards ({empties} without input), {}", if pb(p, "malicious") { "malicious" } else { "semi-honest" });
        match o.class {
            "finished" => {}
            "deadlock" | "stepcap" => {
                let stuck: Vec<String> = (0..3).flat_map(|h| (0..shards).map(move |s| (h, s))).filter(|k| !honest.nodes.contains_key(k)).map(|(h, s)| format!("H{}/s{s}", h + 1)).collect();
                let errs: Vec<String> = honest.nodes.iter().filter_map(|(k, v)| v.as_ref().err().map(|e| format!("H{}/s{}: {}", k.0 + 1, k.1, truncate(e, 80)))).collect();
                // which shards returned on all three helpers (with Ok) while others are stuck?
                let early: Vec<usize> = (0..shards).filter(|s| (0..3).all(|h| matches!(honest.nodes.get(&(h, *s)), Some(Ok(_))))).collect();
                let partial = (0..shards).any(|s| { let c = (0..3).filter(|h| honest.nodes.contains_key(&(*h, s))).count(); c != 0 && c != 3 });
                let zero_err = errs.iter().any(|e| e.contains("zero records"));
                let early_had_input = early.iter().any(|s| assign[..n].contains(s));
                let class = if o.class == "deadlock" && !early.is_empty() && !stuck.is_empty() && errs.is_empty() && !partial && early_had_input {
                    // as below, but a shard that did receive reports walked away from the query
                    "hybrid_hang_shard_with_input_returned_early"
                } else if o.class == "deadlock" && !early.is_empty() && !stuck.is_empty() && errs.is_empty() && !partial {
                    // every node of some shard(s) WITHOUT any input returned Ok early while every node of the other shards waits forever
                    "hybrid_hang_shard_returned_early"
                } else if o.class == "deadlock" && zero_err {
                    "hybrid_hang_after_zero_records_error"
                } else {
                    "hybrid_no_progress"
                };
                if tampered && class != "hybrid_no_progress" {
                    return RunRes::inconclusive("honest_run_hit_known_finding", format!("{class}: {ctx_txt}"), shape, Some(o));
                }
                return RunRes::violation(class, format!("{}: {ctx_txt}; shards that returned on all helpers: {early:?}; nodes that never returned: {stuck:?}; errors: {errs:?}", o.class), shape, Some(o));
            }
            _ => return RunRes::violation("hybrid_panic", format!("panic in a fault-free query ({ctx_txt}): {}", o.panic_msg.clone().unwrap_or_default()), shape, Some(o)),
        }
        for h in 0..3 {
            for s in 0..shards {
                if let Some(Err(e)) = honest.nodes.get(&(h, s)) {
                    let class = if e.contains("zero records") { "hybrid_error_zero_records" } else { "hybrid_spurious_error" };
                    if tampered && class == "hybrid_error_zero_records" {
                        return RunRes::inconclusive("honest_run_hit_known_finding", format!("{class}: {ctx_txt}"), shape, Some(o));
                    }
                    return RunRes::violation(class, format!("fault-free query failed on helper {} shard {s} ({ctx_txt}): {e}", h + 1), shape, Some(o));
                }
            }
        }
        let lead: Vec<&Vec<(u128, u128)>> = (0..3).map(|h| honest.nodes[&(h, 0)].as_ref().unwrap()).collect();
        if lead.iter().any(|v| v.len() != buckets) {
            return RunRes::violation("hybrid_wrong_shape", format!("leader shard returned {:?} buckets, expected {buckets}", lead.iter().map(|v| v.len()).collect::<Vec<_>>()), shape, Some(o));
        }
        for b in 0..buckets {
            for h in 0..3 {
                if lead[h][b].1 != lead[(h + 1) % 3][b].0 {
                    return RunRes::violation("hybrid_inconsistent_sharing", format!("bucket {b}: H{}.right != H{}.left", h + 1, (h + 1) % 3 + 1), shape, Some(o));
                }
            }
            let got = lead[0][b].0 ^ lead[1][b].0 ^ lead[2][b].0;
            if got != want[b] {
                return RunRes::violation("hybrid_wrong_histogram", format!("bucket {b}: protocol {got}, reference {} ({ctx_txt})", want[b]), shape, Some(o));
            }
        }
    }
    if !tampered {
        let mut res = RunRes::pass(shape, honest.outcome.decisions > 0 && n > 0, Some(honest.outcome));
        res.probe("matched_pairs", pairs as u64);
        res.probe("shards_without_input", empties as u64);
        res.probe("saturated_buckets", want.iter().filter(|v| **v == (1u128 << if ps(p, "inst") == "small" { 8 } else { 32 }) - 1).count() as u64);
        res.probe("padding_runs", u64::from(ps(p, "padding") != "none"));
        res.probe("malicious_runs", u64::from(pb(p, "malicious")));
        // rows of the fullest bucket: > 64 means a third aggregation layer on a shard that holds them all
        let fullest = { let mut c = BTreeMap::new(); let mut by_key: BTreeMap<u64, Vec<&Report>> = BTreeMap::new();
            for x in reports.iter() { by_key.entry(x.1).or_default().push(x); }
            for (_k, rs) in by_key { if rs.len() == 2 { *c.entry(rs.iter().map(|x| if x.0 { 0 } else { x.2 as usize }).sum::<usize>() % 256).or_insert(0usize) += 1; } }
            c.values().copied().max().unwrap_or(0) };
        res.probe("third_aggregation_layer", u64::from(pu(p, "shards") == 1 && fullest > 64));
        res.probe("rows_exact_multiple_of_conversion_chunk", u64::from(pu(p, "shards") == 1 && n > 0 && n % 256 == 0 && ps(p, "padding") == "none"));
        return res;
    }
    // ---------- tampered runs: the honest run's inventory serves `replays` same-seed replays, each with its own site(s) ----------
    let corrupt = pu(p, "corrupt");
    let attack = p.get("attack").and_then(Value::as_str).unwrap_or("single").to_string();
    let explicit_site = matches!(p.get("site"), Some(s) if !s.is_null());
    let replays = if explicit_site { 1 } else { p.get("replays").and_then(Value::as_u64).unwrap_or(1).clamp(1, 8) as usize };
    let mut acc: Option<RunRes> = None;
    let mut extras: Vec<Value> = Vec::new();
    for rep in 0..replays {
        let mut sr = Rng::sub(pu64(p, "site_seed"), rep as u64);
        let r = tampered_replay(p, shards, buckets, want, corrupt, if rep == 0 { attack.as_str() } else { "single" }, &mut sr, &honest, &shape, run);
        if r.verdict == Verdict::Violation {
            return r;
        }
        extras.push(r.extra.clone());
        acc = Some(match acc {
            None => r,
            Some(mut a) => {
                for (k, v) in &r.probes { a.probe(k, *v); }
                for (k, v) in &r.faults { a.fault(k, *v); }
                let r_nontrivial = r.nontrivial;
                if a.verdict != Verdict::Pass && r.verdict == Verdict::Pass {
                    // at least one replay was judged: the run counts
                    let (pr, fa) = (a.probes.clone(), a.faults.clone());
                    a = r;
                    a.probes = pr;
                    a.faults = fa;
                }
                a.nontrivial = a.nontrivial || r_nontrivial;
                a
            }
        });
    }
    let mut res = acc.unwrap();
    res.extra = json!({"replays": extras});
    res
}

#[allow(clippy::too_many_arguments)]
fn tampered_replay(p: &Value, shards: usize, buckets: usize, want: &[u128], corrupt: usize, attack: &str, sr: &mut Rng, honest: &OneRun, shape: &str, run: &dyn Fn(Vec<Site>) -> OneRun) -> RunRes {
    let shape = shape.to_string();
    let sites: Vec<Site> = match p.get("site") {
        Some(s) if !s.is_null() => Site::list_from_json(s),
        _ if attack == "prf_lane_cancel" => {
            // +1 in one lane and -1 in another lane of one 16-lane message of the masked-PRF-input multiplication, and the same
            // in the copy of that share the corrupt helper contributes to the opening of z
            let mults: Vec<&ChanKey> = honest.inv.keys().filter(|c| c.kind == "mpc" && c.src == corrupt && c.gate.ends_with("/mult_mask_with_p_r_f_input")).collect();
            if mults.is_empty() {
                Vec::new()
            } else {
                let m = mults[sr.below(mults.len())].clone();
                let prefix = m.gate.trim_end_matches("mult_mask_with_p_r_f_input").to_string();
                let third = 3 - corrupt - m.dst;
                let o = honest.inv.keys().find(|c| c.kind == "mpc" && c.src == corrupt && c.dst == third && c.shard == m.shard && c.gate == format!("{prefix}revealz")).cloned();
                let nrec = (honest.inv[&m].bytes / 512).max(1);
                let (k, l0) = (sr.below(nrec), sr.below(16));
                let l1 = (l0 + 1 + sr.below(15)) % 16;
                match o {
                    Some(o) => [m, o].into_iter().flat_map(|chan| [
                        Site { chan: chan.clone(), chunk: 0, offset: 0, pattern: "addle:32".into(), stream_off: Some(k * 512 + l0 * 32) },
                        Site { chan, chunk: 0, offset: 0, pattern: "suble:32".into(), stream_off: Some(k * 512 + l1 * 32) },
                    ]).collect(),
                    None => Vec::new(),
                }
            }
        }
        _ => draw_site(&honest.inv, &|k: &ChanKey| k.sender_helper() == corrupt, sr, &["flip:0", "flip:3", "flip:7", "add1", "set0", "setff", "addle:4", "addle:32"]).into_iter().collect(),
    };
    if sites.is_empty() {
        return RunRes::inconclusive("no_site", "no channel of the corrupt helper".into(), shape, Some(honest.outcome.clone()));
    }
    let bad = run(sites.clone());
    let o = bad.outcome.clone();
    let sites_json: Vec<Value> = sites.iter().map(Site::to_json).collect();
    if bad.fired.is_empty() {
        return RunRes::inconclusive("tamper_not_delivered", format!("site {} never reached", json!(sites_json)), shape, Some(o));
    }
    let (a, b) = ((corrupt + 1) % 3, (corrupt + 2) % 3);
    let all_ok = [a, b].iter().all(|h| (0..shards).all(|s| matches!(bad.nodes.get(&(*h, s)), Some(Ok(_)))));
    let mut res = if all_ok {
        let (ra, rb) = (bad.nodes[&(a, 0)].as_ref().unwrap(), bad.nodes[&(b, 0)].as_ref().unwrap());
        let mut wrong = None;
        if ra.len() != buckets || rb.len() != buckets {
            wrong = Some((0usize, 0u128));
        } else {
            for k in 0..buckets {
                let got = ra[k].0 ^ ra[k].1 ^ rb[k].1;
                if ra[k].1 != rb[k].0 || got != want[k] {
                    wrong = Some((k, got));
                }
            }
        }
        match wrong {
            Some((k, got)) => RunRes::violation("query_tamper_accepted_result_changed",
                format!("helper {} altered {}; both honest helpers completed the query but bucket {k} opens to {got} instead of {}", corrupt + 1, json!(sites_json), want.get(k).copied().unwrap_or(0)),
                shape, Some(o.clone())),
            None => {
                let mut r = RunRes::pass(shape, true, Some(o.clone()));
                r.probe("tamper_accepted_result_intact", 1);
                r
            }
        }
    } else {
        let mut r = RunRes::pass(shape, true, Some(o.clone()));
        r.probe("tamper_aborted_query", 1);
        r
    };
    res.fault("F1_tamper_delivered", 1);
    res.fault(if sites[0].chan.kind == "shard" { "F1_on_shard_traffic" } else { "F1_on_mpc_traffic" }, 1);
    res.probe(&format!("outcome_{}", o.class), 1);
    let stage = sites[0].chan.gate.split('/').nth(2).unwrap_or("").trim_end_matches(char::is_numeric).to_string();
    res.probe(&format!("stage_{stage}"), 1);
    if sites.len() > 1 {
        res.fault("F1_prf_lane_cancelling_attack", u64::from(bad.fired.len() >= sites.len()));
    }
    res.extra = json!({"site": sites_json, "fired": bad.fired, "inventory_channels": honest.inv.len()});
    res
}
