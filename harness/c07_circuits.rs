// C07 — Boolean circuits compute the stated plaintext functions (semi-honest and DZKP-malicious).
// C03 — the same circuits in malicious mode with one helper rewriting one chunk it sends: the batch
//        must be rejected, or the honest helpers' shares must still determine the right result.
//
// System: real protocol code on the three helpers of a TestWorld; records are driven through the
// validator's own `validated_seq_join` (batched validation) or a single `validate()`.

use std::{
    collections::BTreeMap,
    sync::{
        Arc as StdArc, Mutex as StdMutex,
        atomic::{AtomicBool, Ordering as AO},
    },
};

use futures::{StreamExt, TryStreamExt, stream};
use serde_json::{Value, json};

use crate::{
    error::Error,
    ff::{
        ArrayAccess,
        boolean::Boolean,
        boolean_array::{BA3, BA8, BA16, BA32, BA256},
    },
    protocol::{
        RecordId,
        basics::{BooleanProtocols, SecureMul, ShareKnownValue},
        boolean::{or::bool_or, step::DefaultBitStep},
        context::{Context, TEST_DZKP_STEPS, UpgradableContext, dzkp_validator::DZKPValidator},
        ipa_prf::boolean_ops::{
            integer_mul,
            addition_sequential::{integer_add, integer_sat_add},
            comparison_and_subtraction_sequential::{compare_geq, compare_gt, integer_sub},
        },
    },
    secret_sharing::{BitDecomposed, replicated::semi_honest::AdditiveShare},
    test_fixture::{Runner, TestWorld},
    verif::{
        faults::{self, *},
        sim::*,
        world::*,
    },
};

pub fn scenarios() -> Vec<&'static dyn Scenario> {
    vec![&CircScenario { tampered: false }, &CircScenario { tampered: true }]
}

// ------------------------------------------------------------------------------------------------
// lane packing: N records processed in one vectorised share
// ------------------------------------------------------------------------------------------------

pub trait VecShare<const N: usize>: Sized + Clone + Send + Sync + 'static {
    fn mk(l: &[bool], r: &[bool]) -> Self;
    fn lanes(&self) -> (Vec<bool>, Vec<bool>);
}

impl VecShare<1> for AdditiveShare<Boolean> {
    fn mk(l: &[bool], r: &[bool]) -> Self {
        use crate::secret_sharing::replicated::ReplicatedSecretSharing;
        <AdditiveShare<Boolean> as ReplicatedSecretSharing<Boolean>>::new(Boolean::from(l[0]), Boolean::from(r[0]))
    }
    fn lanes(&self) -> (Vec<bool>, Vec<bool>) {
        use crate::secret_sharing::replicated::ReplicatedSecretSharing;
        (vec![bool::from(self.left())], vec![bool::from(self.right())])
    }
}

macro_rules! vec_share {
    ($n:literal, $ba:ty) => {
        impl VecShare<$n> for AdditiveShare<Boolean, $n> {
            fn mk(l: &[bool], r: &[bool]) -> Self {
                AdditiveShare::new_arr(
                    l.iter().map(|b| Boolean::from(*b)).collect::<$ba>(),
                    r.iter().map(|b| Boolean::from(*b)).collect::<$ba>(),
                )
            }
            fn lanes(&self) -> (Vec<bool>, Vec<bool>) {
                (
                    (0..$n).map(|i| bool::from(self.left_arr().get(i).unwrap())).collect(),
                    (0..$n).map(|i| bool::from(self.right_arr().get(i).unwrap())).collect(),
                )
            }
        }
    };
}
vec_share!(3, BA3);
vec_share!(8, BA8);
vec_share!(16, BA16);
vec_share!(32, BA32);
vec_share!(256, BA256);

/// Share `values[lane]` (each `width` bits) among three helpers: result[h] = bit-decomposed vector share.
pub fn share_bits<S: VecShare<N>, const N: usize>(values: &[u128], width: usize, r: &mut Rng) -> [BitDecomposed<S>; 3] {
    let mut out: [Vec<S>; 3] = [Vec::new(), Vec::new(), Vec::new()];
    for k in 0..width {
        let mut s: [Vec<bool>; 3] = [Vec::new(), Vec::new(), Vec::new()];
        for lane in 0..N {
            let b = (values[lane] >> k) & 1 == 1;
            let (a0, a1) = (r.next_u64() & 1 == 1, r.next_u64() & 2 == 2);
            s[0].push(a0);
            s[1].push(a1);
            s[2].push(b ^ a0 ^ a1);
        }
        for h in 0..3 {
            out[h].push(S::mk(&s[h], &s[(h + 1) % 3]));
        }
    }
    out.map(BitDecomposed::new)
}

/// (left, right) integers per lane
pub fn open_bits<S: VecShare<N>, const N: usize>(bits: &BitDecomposed<S>) -> Vec<(u128, u128)> {
    let mut v = vec![(0u128, 0u128); N];
    for (k, s) in bits.iter().enumerate() {
        let (l, r) = s.lanes();
        for lane in 0..N {
            v[lane].0 |= u128::from(l[lane]) << k;
            v[lane].1 |= u128::from(r[lane]) << k;
        }
    }
    v
}

// ------------------------------------------------------------------------------------------------
// the circuits
// ------------------------------------------------------------------------------------------------

const VEC_OPS: [&str; 7] = ["add", "sat_add", "gt", "or", "and", "xor_free", "mul"];
const SCALAR_OPS: [&str; 2] = ["sub", "geq"];

macro_rules! vec_circuit {
    ($name:ident, $n:literal) => {
        async fn $name<C>(
            ctx: C, op: &str, rid: RecordId,
            x: &BitDecomposed<AdditiveShare<Boolean, $n>>, y: &BitDecomposed<AdditiveShare<Boolean, $n>>,
        ) -> Result<BitDecomposed<AdditiveShare<Boolean, $n>>, Error>
        where
            C: Context,
            AdditiveShare<Boolean, $n>: BooleanProtocols<C, $n>,
        {
            match op {
                "add" => {
                    let (mut s, c) = integer_add::<_, DefaultBitStep, $n>(ctx, rid, x, y).await?;
                    s.push(c);
                    Ok(s)
                }
                "sat_add" => integer_sat_add::<_, DefaultBitStep, $n>(ctx, rid, x, y).await,
                "mul" => integer_mul::<_, DefaultBitStep, $n>(ctx, rid, x, y).await,
                "gt" => Ok(BitDecomposed::new([compare_gt::<_, DefaultBitStep, $n>(ctx, rid, x, y).await?])),
                "or" => bool_or::<_, DefaultBitStep, _, $n>(ctx, rid, x, y.iter()).await,
                "and" => {
                    // one multiplication per bit position, all under the same record
                    let mut out = Vec::new();
                    for (k, (a, b)) in x.iter().zip(y.iter()).enumerate() {
                        out.push(a.multiply(b, ctx.narrow(&format!("bit{k}")), rid).await?);
                    }
                    Ok(BitDecomposed::new(out))
                }
                _ => Ok(BitDecomposed::new(x.iter().zip(y.iter()).map(|(a, b)| a.clone() + b))),
            }
        }
    };
}
vec_circuit!(circ_1, 1);
vec_circuit!(circ_3, 3);
vec_circuit!(circ_8, 8);
vec_circuit!(circ_16, 16);
vec_circuit!(circ_32, 32);
vec_circuit!(circ_256, 256);

async fn scalar_circuit<C>(
    ctx: C, op: &str, rid: RecordId,
    x: &BitDecomposed<AdditiveShare<Boolean>>, y: &BitDecomposed<AdditiveShare<Boolean>>,
) -> Result<BitDecomposed<AdditiveShare<Boolean>>, Error>
where
    C: Context,
    AdditiveShare<Boolean>: BooleanProtocols<C>,
{
    match op {
        "sub" => integer_sub::<_, DefaultBitStep>(ctx, rid, x, y).await,
        "geq" => Ok(BitDecomposed::new([compare_geq::<_, DefaultBitStep>(ctx, rid, x, y).await?])),
        _ => circ_1(ctx, op, rid, x, y).await,
    }
}

/// Plaintext function (result, result width in bits)
fn reference(op: &str, x: u128, y: u128, wx: usize, wy: usize) -> u128 {
    let mask = |w: usize| if w >= 128 { u128::MAX } else { (1u128 << w) - 1 };
    // the second operand is zero-extended or truncated to the first operand's width
    let y_adj = if wy > wx { y & mask(wx) } else { y };
    match op {
        "add" => (x + y_adj) & mask(wx + 1),
        "sat_add" => {
            if x + y_adj > mask(wx) { mask(wx) } else { x + y_adj }
        }
        "gt" => u128::from(x > y_adj),
        "geq" => u128::from(x >= y_adj),
        "sub" => x.wrapping_sub(y_adj) & mask(wx),
        // x unsigned, y in two's complement (sign-extended to the output width wx + wy)
        "mul" => {
            let sext = if wy < 128 && (y >> (wy - 1)) & 1 == 1 { y | !mask(wy) } else { y };
            x.wrapping_mul(sext) & mask(wx + wy)
        }
        "or" => x | y,
        "and" => x & y,
        _ => x ^ y,
    }
}

pub struct CircScenario {
    pub tampered: bool,
}

fn boundary(r: &mut Rng, w: usize) -> u128 {
    let mask = if w >= 128 { u128::MAX } else { (1u128 << w) - 1 };
    let v = match r.below(8) {
        0 => 0,
        1 => 1,
        2 => mask,
        3 => mask.wrapping_sub(1),
        4 => 1u128 << r.below(w),
        5 => (1u128 << r.below(w)).wrapping_sub(1),
        _ => u128::from(r.next_u64()) | (u128::from(r.next_u64()) << 64),
    };
    v & mask
}

impl Scenario for CircScenario {
    fn name(&self) -> &'static str {
        if self.tampered { "c03_tamper" } else { "c07_circ" }
    }

    fn generate(&self, seed: u64, tier: Tier) -> Value {
        let mut r = Rng::sub(seed, if self.tampered { 3_01 } else { 7_01 });
        // 3 and 8 lanes exist in the semi-honest mode only
        let lanes = if self.tampered { r.pick(&[1usize, 1, 16, 32, 256]) } else { r.pick(&[1usize, 1, 3, 8, 16, 32, 256]) };
        let ops: Vec<&str> = if lanes == 1 { VEC_OPS.iter().chain(SCALAR_OPS.iter()).copied().collect() } else { VEC_OPS.to_vec() };
        let ops: Vec<&str> = if self.tampered { ops.into_iter().filter(|o| *o != "xor_free").collect() } else { ops };
        let op = r.pick(&ops);
        let exhaustive = !self.tampered && r.chance(1, 3);
        let wx = if exhaustive { r.range(1, 4) } else { r.pick(&[1usize, 2, 3, 5, 8, 16, 20, 32, 64, 100, 120]) };
        // unequal operand widths only where the code documents support for them
        let wy = if ["or", "and", "xor_free"].contains(&op) || exhaustive || r.chance(2, 3) { wx } else { r.pick(&[1usize, 3, 8, 16, 32, 64, 120]) };
        let (wx, wy, exhaustive) = if op == "mul" {
            let e = !self.tampered && r.chance(1, 3);
            if e { let w = r.range(1, 3); (w, w, true) } else { (r.pick(&[1usize, 2, 3, 5, 8, 12, 16]), r.pick(&[1usize, 2, 3, 4, 8, 12]), false) }
        } else { (wx, wy, exhaustive) };
        let malicious = self.tampered || (![3usize, 8].contains(&lanes) && r.chance(1, 2));
        // records: enough to enumerate all operand pairs when exhaustive
        let pairs = if exhaustive { 1usize << (2 * wx) } else { 0 };
        let records = if exhaustive { pairs.div_ceil(lanes).max(1) } else { r.range(1, if tier == Tier::Quick { 12 } else { 40 }) };
        let batched = r.chance(2, 3);
        // multiplications per gate: small powers of two so that several proof batches are formed
        let max_mults = if batched { r.pick(&[1usize, 2, 4, 8, 16]) } else { records.next_power_of_two().max(1) };
        let est = 800 + (records * (wx + 2)) as u64 * 60;
        let mut p = json!({"op": op, "lanes": lanes, "wx": wx, "wy": wy, "records": records, "exhaustive": exhaustive,
            "malicious": malicious, "batched": batched, "max_mults": max_mults, "input_seed": r.next_u64() >> 12,
            "knobs": draw_knobs(&mut r)});
        if self.tampered {
            p["corrupt"] = json!(r.below(3));
            p["site_seed"] = json!(r.next_u64() >> 12);
        }
        p["sched"] = SchedSpec::draw(&mut r, est, 4_000_000);
        p
    }

    fn exec(&self, p: &Value, explicit: Option<Vec<u32>>) -> RunRes {
        match pu(p, "lanes") {
            1 => exec_n::<AdditiveShare<Boolean>, 1>(p, explicit, self.tampered),
            3 => exec_n::<AdditiveShare<Boolean, 3>, 3>(p, explicit, self.tampered),
            8 => exec_n::<AdditiveShare<Boolean, 8>, 8>(p, explicit, self.tampered),
            16 => exec_n::<AdditiveShare<Boolean, 16>, 16>(p, explicit, self.tampered),
            32 => exec_n::<AdditiveShare<Boolean, 32>, 32>(p, explicit, self.tampered),
            256 => exec_n::<AdditiveShare<Boolean, 256>, 256>(p, explicit, self.tampered),
            _ => RunRes::invalid("circ: lanes"),
        }
    }
}

/// per helper: Ok(per record, per lane (left,right)) or Err
type HelperRes = Result<Vec<Vec<(u128, u128)>>, String>;

struct OneRun {
    outcome: SimOutcome,
    res: BTreeMap<usize, HelperRes>,
    inv: BTreeMap<ChanKey, ChanStat>,
    fired: Vec<Value>,
}

trait Dispatch<const N: usize>: VecShare<N> {
    fn run(p: &Value, spec: &SchedSpec, xs: &[Vec<u128>], ys: &[Vec<u128>], site: Option<Site>) -> OneRun;
}

/// `both`: the width is supported in the semi-honest and in the proof-carrying mode; `sh`: semi-honest only (3 and 8 lanes)
macro_rules! run_modes {
    (both, $malicious:ident, $world:ident, $input:ident, $ty:ty, $body:ident) => {
        if $malicious {
            $world.malicious($input, |ctx, inp: Vec<(BitDecomposed<$ty>, BitDecomposed<$ty>)>| async move { $body!(ctx, inp) }).await;
        } else {
            $world.semi_honest($input, |ctx, inp: Vec<(BitDecomposed<$ty>, BitDecomposed<$ty>)>| async move { $body!(ctx, inp) }).await;
        }
    };
    (sh, $malicious:ident, $world:ident, $input:ident, $ty:ty, $body:ident) => {
        assert!(!$malicious, "harness: this vector width has no proof-carrying mode");
        $world.semi_honest($input, |ctx, inp: Vec<(BitDecomposed<$ty>, BitDecomposed<$ty>)>| async move { $body!(ctx, inp) }).await;
    };
}

macro_rules! dispatch {
    ($n:literal, $ty:ty, $circ:ident) => {
        dispatch!($n, $ty, $circ, both);
    };
    ($n:literal, $ty:ty, $circ:ident, $mode:ident) => {
        impl Dispatch<$n> for $ty {
            fn run(p: &Value, spec: &SchedSpec, xs: &[Vec<u128>], ys: &[Vec<u128>], site: Option<Site>) -> OneRun {
                let op = ps(p, "op").to_string();
                let (wx, wy, records) = (pu(p, "wx"), pu(p, "wy"), pu(p, "records"));
                let (malicious, batched, max_mults) = (pb(p, "malicious"), pb(p, "batched"), pu(p, "max_mults"));
                let knobs = &p["knobs"];
                let (active, read_size, world_seed) = (pu(knobs, "active"), pu(knobs, "read_size"), pu64(knobs, "world_seed"));
                let input_seed = pu64(p, "input_seed");
                let (tamper, interceptor) = faults::tamper(site);
                let log: StdArc<StdMutex<BTreeMap<usize, HelperRes>>> = StdArc::new(StdMutex::new(BTreeMap::new()));
                let log2 = StdArc::clone(&log);
                let (xs, ys) = (xs.to_vec(), ys.to_vec());
                let outcome = sim_async(spec, StdArc::new(AtomicBool::new(false)), move || {
                    let (log, op, xs, ys, interceptor) = (StdArc::clone(&log2), op.clone(), xs.clone(), ys.clone(), interceptor.clone());
                    async move {
                        let world = TestWorld::new_with(&world_config(world_seed, active, read_size, Some(interceptor)));
                        let mut sr = Rng::sub(input_seed, 99);
                        let mut inputs: [Vec<(BitDecomposed<$ty>, BitDecomposed<$ty>)>; 3] = [Vec::new(), Vec::new(), Vec::new()];
                        for rec in 0..records {
                            let x = share_bits::<$ty, $n>(&xs[rec], wx, &mut sr);
                            let y = share_bits::<$ty, $n>(&ys[rec], wy, &mut sr);
                            let [x0, x1, x2] = x;
                            let [y0, y1, y2] = y;
                            inputs[0].push((x0, y0));
                            inputs[1].push((x1, y1));
                            inputs[2].push((x2, y2));
                        }
                        let input = crate::verif::c05_shuffle::Shared3(inputs);
                        let (log, op) = (&log, &op);
                        macro_rules! body {
                            ($ctx:ident, $inp:ident) => {{
                                let h = role_idx($ctx.role());
                                let v = $ctx.set_total_records(records).dzkp_validator(TEST_DZKP_STEPS, max_mults);
                                let m = v.context();
                                let r: Result<Vec<BitDecomposed<$ty>>, Error> = if batched {
                                    v.validated_seq_join(stream::iter($inp).enumerate().map(|(i, (x, y))| {
                                        let m = m.clone();
                                        async move { $circ(m, op, RecordId::from(i), &x, &y).await }
                                    }))
                                    .try_collect()
                                    .await
                                } else {
                                    // all records in flight through the context's own window, then one proof
                                    use crate::seq_join::SeqJoin;
                                    let joined: Result<Vec<BitDecomposed<$ty>>, Error> = m
                                        .try_join($inp.into_iter().enumerate().map(|(i, (x, y))| {
                                            let m = m.clone();
                                            async move { $circ(m, op, RecordId::from(i), &x, &y).await }
                                        }))
                                        .await;
                                    match joined {
                                        Ok(out) => v.validate().await.map(|()| out),
                                        Err(e) => Err(e),
                                    }
                                };
                                log.lock().unwrap().insert(h, r.map(|v| v.iter().map(open_bits::<$ty, $n>).collect()).map_err(|e| e.to_string()));
                            }};
                        }
                        run_modes!($mode, malicious, world, input, $ty, body);
                    }
                });
                let t = tamper.log.lock().unwrap();
                OneRun { outcome, res: log.lock().unwrap().clone(), inv: t.chans.clone(), fired: t.fired.clone() }
            }
        }
    };
}

dispatch!(1, AdditiveShare<Boolean>, scalar_circuit);
dispatch!(3, AdditiveShare<Boolean, 3>, circ_3, sh);
dispatch!(8, AdditiveShare<Boolean, 8>, circ_8, sh);
dispatch!(16, AdditiveShare<Boolean, 16>, circ_16);
dispatch!(32, AdditiveShare<Boolean, 32>, circ_32);
dispatch!(256, AdditiveShare<Boolean, 256>, circ_256);

fn exec_n<S: Dispatch<N>, const N: usize>(p: &Value, explicit: Option<Vec<u32>>, tampered: bool) -> RunRes {
    let op = ps(p, "op").to_string();
    let (wx, wy, records) = (pu(p, "wx"), pu(p, "wy"), pu(p, "records"));
    let (malicious, batched, max_mults, exhaustive) = (pb(p, "malicious"), pb(p, "batched"), pu(p, "max_mults"), pb(p, "exhaustive"));
    let knobs = &p["knobs"];
    let ok_op = VEC_OPS.contains(&op.as_str()) || (N == 1 && SCALAR_OPS.contains(&op.as_str()));
    if !ok_op || wx == 0 || wx > 120 || wy == 0 || wy > 120 || records == 0 || records > 4096 || !max_mults.is_power_of_two()
        || (!batched && max_mults < records) || !pu(knobs, "active").is_power_of_two() || pu(knobs, "active") < 2 || pu(knobs, "read_size") == 0
        || (["or", "and", "xor_free"].contains(&op.as_str()) && wx != wy) || (exhaustive && (wx > 4 || wx != wy))
        || (tampered && (!malicious || pu(p, "corrupt") > 2)) || (malicious && (N == 3 || N == 8))
    {
        return RunRes::invalid("circ: plan");
    }
    // operands
    let mut r = Rng::sub(pu64(p, "input_seed"), 1);
    let mut xs: Vec<Vec<u128>> = Vec::new();
    let mut ys: Vec<Vec<u128>> = Vec::new();
    let mut k = 0u128;
    for _ in 0..records {
        let (mut xr, mut yr) = (Vec::new(), Vec::new());
        for _ in 0..N {
            if exhaustive {
                let pairs = 1u128 << (2 * wx);
                let idx = k % pairs;
                xr.push(idx & ((1 << wx) - 1));
                yr.push(idx >> wx);
                k += 1;
            } else {
                xr.push(boundary(&mut r, wx));
                let mut y = boundary(&mut r, wy);
                // comparison is documented for |x| >= log2(y) only
                if ["gt", "geq", "sub"].contains(&op.as_str()) && wy > wx {
                    y &= (1u128 << wx) - 1;
                }
                yr.push(y);
            }
        }
        xs.push(xr);
        ys.push(yr);
    }
    let spec = SchedSpec::from_json(&p["sched"], explicit);
    let shape = format!("circ {op} N{N} w{wx}/{wy} r{records} m{} b{}x{max_mults} e{} t{}", u8::from(malicious), u8::from(batched), u8::from(exhaustive), u8::from(tampered));
    let want = |rec: usize, lane: usize| reference(&op, xs[rec][lane], ys[rec][lane], wx, wy);

    let honest = S::run(p, &spec, &xs, &ys, None);
    // ---- fault-free oracle ----
    {
        let o = honest.outcome.clone();
        match o.class {
            "finished" => {}
            "deadlock" | "stepcap" => return RunRes::violation("circ_no_progress", format!("{}: {}", o.class, truncate(&o.panic_msg.clone().unwrap_or_default(), 300)), shape, Some(o)),
            _ => return RunRes::violation("circ_panic", format!("panic in a fault-free run: {}", o.panic_msg.clone().unwrap_or_default()), shape, Some(o)),
        }
        let mut per: Vec<&Vec<Vec<(u128, u128)>>> = Vec::new();
        for h in 0..3 {
            match honest.res.get(&h) {
                Some(Ok(v)) => per.push(v),
                Some(Err(e)) => return RunRes::violation("circ_spurious_error", format!("helper {} failed in a fault-free run: {e}", h + 1), shape, Some(o)),
                None => return RunRes::violation("circ_no_result", format!("helper {} produced no result", h + 1), shape, Some(o)),
            }
        }
        for rec in 0..records {
            for lane in 0..N {
                let s: Vec<(u128, u128)> = (0..3).map(|h| per[h][rec][lane]).collect();
                for h in 0..3 {
                    if s[h].1 != s[(h + 1) % 3].0 {
                        return RunRes::violation("circ_inconsistent_sharing", format!("record {rec} lane {lane}: H{}.right != H{}.left", h + 1, (h + 1) % 3 + 1), shape, Some(o));
                    }
                }
                let got = s[0].0 ^ s[1].0 ^ s[2].0;
                if got != want(rec, lane) {
                    return RunRes::violation("circ_wrong_result",
                        format!("{op}({:#x}, {:#x}) widths {wx}/{wy} = {:#x}, circuit returned {:#x} (record {rec}, lane {lane}, {} mode)", xs[rec][lane], ys[rec][lane], want(rec, lane), got,
                            if malicious { "malicious" } else { "semi-honest" }),
                        shape, Some(o));
                }
            }
        }
    }
    if !tampered {
        let mut res = RunRes::pass(shape, honest.outcome.decisions > 0, Some(honest.outcome));
        res.probe("operand_pairs", (records * N) as u64);
        res.probe("exhaustive_small_width", u64::from(exhaustive));
        res.probe("unequal_widths", u64::from(wx != wy));
        res.probe("proof_batches", if malicious && batched { records.div_ceil(max_mults) as u64 } else { u64::from(malicious) });
        return res;
    }
    // ---- tampered run ----
    let corrupt = pu(p, "corrupt");
    let mut sr = Rng::sub(pu64(p, "site_seed"), 0);
    let site = match p.get("site") {
        Some(s) if !s.is_null() => Some(Site::from_json(s)),
        _ => draw_site(&honest.inv, &|k: &ChanKey| k.sender_helper() == corrupt, &mut sr, &["flip:0", "flip:1", "flip:4", "flip:7", "add1", "setff", "set0"]),
    };
    let Some(site) = site else {
        return RunRes::inconclusive("no_site", "no channel of the corrupt helper in the inventory".into(), shape, Some(honest.outcome));
    };
    let bad = S::run(p, &spec, &xs, &ys, Some(site.clone()));
    let o = bad.outcome.clone();
    if bad.fired.is_empty() {
        return RunRes::inconclusive("tamper_not_delivered", format!("site {} never reached", site.to_json()), shape, Some(o));
    }
    let (a, b) = ((corrupt + 1) % 3, (corrupt + 2) % 3);
    // the helper that received an altered product share is the verifier to the left of the deviating party: it is the one
    // that has to reject (whatever the others do)
    if !site.chan.gate.contains("/validate") && site.chan.kind == "mpc" && site.chan.dst != corrupt {
        if let Some(Ok(_)) = bad.res.get(&site.chan.dst) {
            let mut r = RunRes::violation("dzkp_receiver_of_altered_share_accepted",
                format!("helper {} altered a multiplication message {} ; helper {} - the verifier to its left, which received the altered share - validated the batch (the other honest helper: {})",
                    corrupt + 1, site.to_json(), site.chan.dst + 1, match bad.res.get(&(3 - corrupt - site.chan.dst)) { Some(Ok(_)) => "accepted too".to_string(), Some(Err(e)) => format!("rejected: {}", truncate(e, 80)), None => "no result".to_string() }),
                shape, Some(o.clone()));
            r.extra = json!({"site": site.to_json(), "fired": bad.fired});
            return r;
        }
    }
    let mut res = match (bad.res.get(&a), bad.res.get(&b)) {
        (Some(Ok(ra)), Some(Ok(rb))) => {
            // both honest helpers accepted: their shares must still determine the right results
            let mut wrong = None;
            for rec in 0..records {
                for lane in 0..N {
                    let (x, y) = (ra[rec][lane], rb[rec][lane]);
                    let got = x.0 ^ x.1 ^ y.1;
                    if x.1 != y.0 || got != want(rec, lane) {
                        wrong = Some((rec, lane, got));
                    }
                }
            }
            match wrong {
                Some((rec, lane, got)) => RunRes::violation("dzkp_tamper_accepted_result_changed",
                    format!("helper {} altered {} ; both honest helpers validated the batch but {op} record {rec} lane {lane} now opens to {got:#x} instead of {:#x}", corrupt + 1, site.to_json(), want(rec, lane)),
                    shape, Some(o.clone())),
                None if !site.chan.gate.contains("/validate") => RunRes::violation("dzkp_mult_tamper_accepted",
                    format!("helper {} altered a multiplication message {} and both honest helpers validated the batch", corrupt + 1, site.to_json()),
                    shape, Some(o.clone())),
                None => {
                    // rewritten bytes of a proof message that carry no information (unused tail of a fixed-size array)
                    let mut r = RunRes::pass(shape, true, Some(o.clone()));
                    r.probe("proof_msg_tamper_accepted_result_intact", 1);
                    r
                }
            }
        }
        _ => {
            let mut r = RunRes::pass(shape, true, Some(o.clone()));
            r.probe("tamper_rejected_or_aborted", 1);
            r
        }
    };
    res.fault("F1_tamper_delivered", 1);
    res.probe(&format!("outcome_{}", o.class), 1);
    let step = site.chan.gate.rsplit('/').next().unwrap_or("").trim_end_matches(char::is_numeric).to_string();
    res.probe(&format!("site_{step}"), 1);
    res.extra = json!({"site": site.to_json(), "fired": bad.fired, "inventory_channels": honest.inv.len()});
    res
}
