// C06 — shared randomness is pairwise identical, step-separated, never reused; all shards of a helper
// derive identical cross-shard randomness that matches the neighbouring helpers' shards.
//
//  * c06_prss  : endpoints negotiated over the simulated network (production path) or made by
//                make_participants; seeded (step, index, width) queries incl. multi-block values up to
//                the offset cap and sequential generators
//  * c06_xshard: gen_and_distribute on 3 helpers x S shards under seeded schedules
// The "never reused" clause is a monitor armed in every run of every scenario (debug-build UsedSet).

use std::{
    collections::{BTreeMap, BTreeSet},
    sync::{
        Arc as StdArc, Mutex as StdMutex,
        atomic::{AtomicBool, Ordering as AO},
    },
};

use generic_array::GenericArray;
use rand::{RngCore, SeedableRng, rngs::StdRng};
use serde_json::{Value, json};
use typenum::{U1, U2, U16, U64};

use crate::{
    helpers::{Direction, prss_protocol::negotiate, setup_cross_shard_prss as gen_and_distribute},
    protocol::{
        Gate, RecordId,
        context::Context,
        prss::{Endpoint, SharedRandomness},
    },
    sharding::ShardConfiguration,
    test_fixture::{Runner, TestWorld, WithShards},
    verif::{c13_gateway::SharedWorld, sim::*, world::*},
};

pub fn scenarios() -> Vec<&'static dyn Scenario> {
    vec![&PrssScenario, &XShardScenario]
}

fn g(k: usize) -> Gate {
    // steps 4..6 have long names that differ only after a common prefix of more than 100 bytes (deep step trees do)
    if (4..7).contains(&k) {
        Gate::from(format!("protocol/verif-prss-deep/{}/leaf{k}", "binary_validator/row_chunk_000/".repeat(4)).as_str())
    } else {
        Gate::from(format!("protocol/verif-prss{k}").as_str())
    }
}

/// (left blocks, right blocks) for one query
type Draw = (Vec<u128>, Vec<u128>);

fn query(ep: &Endpoint, gate: usize, index: u32, blocks: usize) -> Draw {
    let prss = ep.indexed(&g(gate));
    match blocks {
        1 => {
            let (l, r) = prss.generate_values(index);
            (vec![l], vec![r])
        }
        2 => {
            let (l, r) = prss.generate_arrays::<_, U2>(index);
            (l.to_vec(), r.to_vec())
        }
        16 => {
            let (l, r) = prss.generate_arrays::<_, U16>(index);
            (l.to_vec(), r.to_vec())
        }
        2049 => {
            // one block at a time up to and including the last permitted offset (2^11 itself)
            let mut l = Vec::new();
            let mut r = Vec::new();
            for (a, b) in prss.generate_chunks_iter::<_, typenum::U1>(index).take(2049) {
                l.extend_from_slice(&a);
                r.extend_from_slice(&b);
            }
            (l, r)
        }
        _ => {
            // up to the documented offset cap (2^11 blocks for one index)
            let mut l = Vec::new();
            let mut r = Vec::new();
            for (a, b) in prss.generate_chunks_iter::<_, U64>(index).take(32) {
                l.extend_from_slice(&a);
                r.extend_from_slice(&b);
            }
            (l, r)
        }
    }
}

pub struct PrssScenario;

impl Scenario for PrssScenario {
    fn name(&self) -> &'static str {
        "c06_prss"
    }

    fn generate(&self, seed: u64, _tier: Tier) -> Value {
        let mut r = Rng::sub(seed, 6_01);
        let nq = r.range(1, 24);
        let mut seen = BTreeSet::new();
        let mut queries = Vec::new();
        for _ in 0..nq {
            let gate = r.below(7);
            let index = match r.below(4) {
                0 => r.below(4) as u32,
                1 => u32::MAX - r.below(3) as u32,
                _ => (r.next_u64() & 0xffff_ffff) as u32,
            };
            if seen.insert((gate, index)) {
                queries.push(json!({"gate": gate, "index": index, "blocks": r.pick(&[1usize, 1, 1, 2, 16, 2048, 2049])}));
            }
        }
        json!({"mode": if r.chance(1, 2) { "negotiate" } else { "participants" }, "queries": queries,
            "seq_gate": 7, "seq_draws": r.range(0, 40), "key_seed": r.next_u64() >> 12,
            "knobs": draw_knobs(&mut r), "sched": SchedSpec::draw(&mut r, 400, 500_000)})
    }

    fn exec(&self, p: &Value, explicit: Option<Vec<u32>>) -> RunRes {
        let queries: Vec<(usize, u32, usize)> = p["queries"].as_array().cloned().unwrap_or_default().iter().map(|q| (pu(q, "gate"), pu64(q, "index") as u32, pu(q, "blocks"))).collect();
        let negotiate_mode = ps(p, "mode") == "negotiate";
        let seq_draws = pu(p, "seq_draws");
        let key_seed = pu64(p, "key_seed");
        let knobs = &p["knobs"];
        let (active, read_size, world_seed) = (pu(knobs, "active"), pu(knobs, "read_size"), pu64(knobs, "world_seed"));
        {
            let mut s = BTreeSet::new();
            if queries.iter().any(|q| !s.insert((q.0, q.1)) || ![1usize, 2, 16, 2048, 2049].contains(&q.2) || q.0 >= 7) || !active.is_power_of_two() || active < 2 || read_size == 0 {
                return RunRes::invalid("prss: plan");
            }
        }
        let spec = SchedSpec::from_json(&p["sched"], explicit);
        let shape = format!("prss {} q{} s{seq_draws}", ps(p, "mode"), queries.len());
        let log: StdArc<StdMutex<BTreeMap<usize, (Vec<Draw>, (Vec<u64>, Vec<u64>))>>> = StdArc::new(StdMutex::new(BTreeMap::new()));
        let log2 = StdArc::clone(&log);
        let q2 = queries.clone();
        let outcome = sim_async(&spec, StdArc::new(AtomicBool::new(false)), move || {
            let (log, queries) = (StdArc::clone(&log2), q2.clone());
            async move {
                let world = StdArc::new(SharedWorld(crate::verif::c13_gateway::AnyWorld::One(TestWorld::new_with(&world_config(world_seed, active, read_size, None)))));
                let mut handles = Vec::new();
                // make_participants endpoints are created up-front from one seeded generator
                let mut participants: Vec<Option<Endpoint>> = if negotiate_mode {
                    vec![None, None, None]
                } else {
                    crate::test_fixture::make_participants(&mut StdRng::seed_from_u64(key_seed)).into_iter().map(Some).collect()
                };
                for h in 0..3usize {
                    let (world, log, queries) = (StdArc::clone(&world), StdArc::clone(&log), queries.clone());
                    let pre = participants[h].take();
                    handles.push(shuttle::future::spawn(async move {
                        let ep = match pre {
                            Some(ep) => ep,
                            None => negotiate(world.gw(h, 0), &g(99), &mut StdRng::seed_from_u64(key_seed ^ (h as u64 + 1))).await.expect("negotiate"),
                        };
                        let mut draws = Vec::new();
                        for (gate, index, blocks) in &queries {
                            draws.push(query(&ep, *gate, *index, *blocks));
                            shuttle::future::yield_now().await;
                        }
                        let (mut sl, mut sr) = ep.sequential(&g(7));
                        let l: Vec<u64> = (0..seq_draws).map(|_| sl.next_u64()).collect();
                        let r: Vec<u64> = (0..seq_draws).map(|_| sr.next_u64()).collect();
                        log.lock().unwrap().insert(h, (draws, (l, r)));
                    }));
                }
                for h in handles {
                    h.await.unwrap();
                }
            }
        });
        match outcome.class {
            "finished" => {}
            c => {
                return RunRes::violation(if outcome.is_prss_reuse() { "prss_reuse" } else if c == "panic" { "prss_panic" } else { "prss_no_progress" },
                    format!("{c}: {}", truncate(&outcome.panic_msg.clone().unwrap_or_default(), 300)), shape, Some(outcome));
            }
        }
        let l = log.lock().unwrap();
        let mut all: BTreeMap<u128, (usize, usize, u32, usize)> = BTreeMap::new();
        let mut blocks_total = 0u64;
        for (qi, (gate, index, _)) in queries.iter().enumerate() {
            for h in 0..3 {
                let mine = &l[&h].0[qi];
                let next = &l[&((h + 1) % 3)].0[qi];
                if mine.1 != next.0 {
                    return RunRes::violation("prss_pair_mismatch", format!("step {gate} index {index}: H{}.right != H{}.left", h + 1, (h + 1) % 3 + 1), shape, Some(outcome));
                }
                // separation: every block of every (step, index, offset) on a given pairwise key is distinct
                for (off, v) in mine.0.iter().enumerate() {
                    blocks_total += 1;
                    if let Some(prev) = all.insert(*v, (h, *gate, *index, off)) {
                        return RunRes::violation("prss_not_separated", format!("left value of H{} for (step {gate}, index {index}, offset {off}) equals the value for (helper, step, index, offset) = {prev:?}", h + 1), shape, Some(outcome));
                    }
                }
            }
        }
        for h in 0..3 {
            let (mine, next) = (&l[&h].1, &l[&((h + 1) % 3)].1);
            if mine.1 != next.0 {
                return RunRes::violation("prss_pair_mismatch", format!("sequential generator: H{}.right stream != H{}.left stream", h + 1, (h + 1) % 3 + 1), shape, Some(outcome));
            }
            let mut s = BTreeSet::new();
            if mine.0.iter().any(|v| !s.insert(*v)) {
                return RunRes::violation("prss_not_separated", "sequential generator repeated a value".into(), shape, Some(outcome));
            }
        }
        let mut res = RunRes::pass(shape, outcome.decisions > 0 || !negotiate_mode, Some(outcome));
        res.probe("blocks_compared", blocks_total);
        res.probe("negotiated_over_network", u64::from(negotiate_mode));
        res.probe("multi_block_to_offset_cap", queries.iter().filter(|q| q.2 >= 2048).count() as u64);
        res.probe("last_permitted_offset", queries.iter().filter(|q| q.2 == 2049).count() as u64);
        res.probe("long_step_names", queries.iter().filter(|q| (4..7).contains(&q.0)).count() as u64);
        res
    }
}

pub struct XShardScenario;

impl Scenario for XShardScenario {
    fn name(&self) -> &'static str {
        "c06_xshard"
    }

    fn generate(&self, seed: u64, _tier: Tier) -> Value {
        let mut r = Rng::sub(seed, 6_02);
        json!({"shards": r.pick(&[2usize, 3, 5]), "indices": (0..r.range(1, 6)).map(|_| r.below(1000)).collect::<BTreeSet<_>>().into_iter().collect::<Vec<_>>(),
            "knobs": draw_knobs(&mut r), "sched": SchedSpec::draw(&mut r, 1500, 1_000_000)})
    }

    fn exec(&self, p: &Value, explicit: Option<Vec<u32>>) -> RunRes {
        match pu(p, "shards") {
            2 => xshard_2(p, explicit),
            3 => xshard_3(p, explicit),
            5 => xshard_5(p, explicit),
            _ => RunRes::invalid("xshard: shards"),
        }
    }
}

macro_rules! make_xshard {
    ($name:ident, $n:literal) => {
        fn $name(p: &Value, explicit: Option<Vec<u32>>) -> RunRes {
            let indices = pvec(p, "indices");
            let knobs = &p["knobs"];
            let (active, read_size, world_seed) = (pu(knobs, "active"), pu(knobs, "read_size"), pu64(knobs, "world_seed"));
            if indices.is_empty() || !active.is_power_of_two() || active < 2 || read_size == 0 {
                return RunRes::invalid("xshard: plan");
            }
            let spec = SchedSpec::from_json(&p["sched"], explicit);
            let shape = format!("xshard s{} i{}", $n, indices.len());
            let log: NodeLog<Result<Vec<(u128, u128)>, String>> = node_log();
            let log2 = StdArc::clone(&log);
            let idx2 = indices.clone();
            let outcome = sim_async(&spec, StdArc::new(AtomicBool::new(false)), move || {
                let (log, indices) = (StdArc::clone(&log2), idx2.clone());
                async move {
                    let world = TestWorld::<WithShards<$n>>::with_shards(&world_config(world_seed, active, read_size, None));
                    let (world_ref, log, indices) = (&world, &log, &indices);
                    world
                        .semi_honest(Vec::<()>::new().into_iter(), |ctx, _| async move {
                            let key = (role_idx(ctx.role()), usize::from(ctx.shard_id()));
                            let gateway = world_ref.gateway(ctx.role(), ctx.shard_id());
                            let r = gen_and_distribute(gateway, &g(50), ctx.prss(), ctx.clone()).await;
                            let r = r.map(|ep| indices.iter().map(|i| ep.indexed(&g(51)).generate_values(RecordId::from(*i))).collect::<Vec<_>>()).map_err(|e| e.to_string());
                            log.lock().unwrap().insert(key, r);
                        })
                        .await;
                }
            });
            match outcome.class {
                "finished" => {}
                c => {
                    return RunRes::violation(if outcome.is_prss_reuse() { "prss_reuse" } else if c == "panic" { "xshard_panic" } else { "xshard_no_progress" },
                        format!("{c}: {}", truncate(&outcome.panic_msg.clone().unwrap_or_default(), 300)), shape, Some(outcome));
                }
            }
            let l = log.lock().unwrap();
            for h in 0..3 {
                for s in 0..$n {
                    let Some(Ok(v)) = l.get(&(h, s)) else {
                        return RunRes::violation("xshard_error", format!("helper {} shard {s}: {:?}", h + 1, l.get(&(h, s))), shape, Some(outcome));
                    };
                    let Some(Ok(lead)) = l.get(&(h, 0)) else { unreachable!() };
                    if v != lead {
                        return RunRes::violation("xshard_shards_differ", format!("helper {} shard {s} derives different cross-shard randomness than the leader shard", h + 1), shape, Some(outcome));
                    }
                    let Some(Ok(next)) = l.get(&((h + 1) % 3, s)) else { continue };
                    for (k, (a, b)) in v.iter().zip(next.iter()).enumerate() {
                        if a.1 != b.0 {
                            return RunRes::violation("xshard_pair_mismatch", format!("index #{k}: H{} shard {s} right != H{} shard {s} left", h + 1, (h + 1) % 3 + 1), shape, Some(outcome));
                        }
                    }
                }
            }
            let mut res = RunRes::pass(shape, outcome.decisions > 0, Some(outcome));
            res.probe("xshard_nodes", 3 * $n);
            res
        }
    };
}
make_xshard!(xshard_2, 2);
make_xshard!(xshard_3, 3);
make_xshard!(xshard_5, 5);
