#!/bin/bash
# confirm_seed.sh <worktree> <mutation-dir> <test-filter> [cargo-test-extra-args]
# Confirms, in the scratch worktree: (1) demo passes on the clean tree, (2) demo fails with the change,
# (3) the full existing suite passes with the change (without the demo). Writes <mutation-dir>/CONFIRM.txt.
WT=$1; M=$2; FILTER=$3; EXTRA=${4:-}
export CARGO_NET_OFFLINE=true RUST_BACKTRACE=0
OUT=$M/CONFIRM.txt; : > $OUT
cd $WT || exit 2
git checkout -q -- . ; git clean -fdq -e mutations -e target
git apply $M/demo.diff || { echo "demo.diff does not apply" >> $OUT; exit 2; }
timeout 1200 cargo test -p ipa-core --lib --offline $EXTRA $FILTER > $M/confirm_demo_clean.log 2>&1; A=$?
echo "demo on clean tree: exit $A ($(grep -E '^test result' $M/confirm_demo_clean.log | tail -1))" >> $OUT
git apply $M/patch.diff || { echo "patch.diff does not apply on top of demo" >> $OUT; exit 2; }
timeout 1200 cargo test -p ipa-core --lib --offline $EXTRA $FILTER > $M/confirm_demo_mut.log 2>&1; B=$?
echo "demo with change: exit $B ($(grep -E '^test result' $M/confirm_demo_mut.log | tail -1))" >> $OUT
git checkout -q -- . ; git clean -fdq -e mutations -e target
git apply $M/patch.diff
timeout 3000 cargo nextest run --workspace --no-fail-fast --test-threads 6 --retries 2 --offline > $M/confirm_suite.log 2>&1; C=$?
echo "suite with change: exit $C ($(grep -E 'Summary' $M/confirm_suite.log | tail -1))" >> $OUT
git checkout -q -- . ; git clean -fdq -e mutations -e target
if [ $A -eq 0 ] && [ $B -ne 0 ] && [ $C -eq 0 ]; then echo "CONFIRMED" >> $OUT; else echo "NOT CONFIRMED" >> $OUT; fi
cat $OUT
