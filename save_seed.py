#!/usr/bin/env python3
"""save_seed.py <id> <mutation-dir> <property> <detected_by> <needs...> : copy a confirmed seeded change into /verif/seeded/<id>/"""
import sys, os, shutil, json
sid, mdir, prop, detected = sys.argv[1:5]
needs = " ".join(sys.argv[5:])
dst = os.path.join("/verif/seeded", sid)
os.makedirs(dst, exist_ok=True)
for f in ("patch.diff", "demo.diff", "demo.md", "meta.md", "CONFIRM.txt"):
    src = os.path.join(mdir, f)
    if os.path.exists(src):
        shutil.copy(src, os.path.join(dst, f if f != "meta.md" else "author_notes.md"))
confirm = open(os.path.join(mdir, "CONFIRM.txt")).read() if os.path.exists(os.path.join(mdir, "CONFIRM.txt")) else ""
meta = {
    "id": sid, "property": prop,
    "origin": "written by an independent sub-agent that saw only the property text and its own scratch worktree (nothing from /verif)",
    "needs_to_manifest": needs,
    "confirmed_by_me": {
        "how": "confirm_seed.sh in the scratch worktree: demo on clean tree passes, demo with patch fails, full nextest suite (987 tests) passes with the patch alone",
        "result": confirm.strip().splitlines(),
    },
    "check_result": {"cmd": "./seedtest.sh %s seeded/%s/patch.diff (git -C /repo apply; ./check %s --tier quick; git checkout)" % (prop, sid, prop), "detected_by": detected},
}
json.dump(meta, open(os.path.join(dst, "meta.json"), "w"), indent=1)
print("saved", dst)
