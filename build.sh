#!/bin/bash
# Build the simulator binary from /repo's current working tree (hooks on) and print its path.
# Usage: build.sh [flavour]   flavour: sim (default) | mt
set -euo pipefail
FLAVOUR="${1:-sim}"
VERIF_DIR="$(cd "$(dirname "$0")" && pwd)"
REPO="${VERIF_REPO:-/repo}"
case "$FLAVOUR" in
  sim) FEATURES="shuttle" ;;
  mt)  FEATURES="shuttle multi-threading" ;;
  *) echo "unknown flavour $FLAVOUR" >&2; exit 2 ;;
esac
export RUSTFLAGS="--cfg ipa_verif"
export IPA_VERIF_DIR="$VERIF_DIR"
export CARGO_NET_OFFLINE=true
export CARGO_TARGET_DIR="$VERIF_DIR/target/$FLAVOUR"
export CARGO_PROFILE_TEST_OPT_LEVEL=2
export CARGO_PROFILE_TEST_DEBUG=0
# the entropy shim
if [ ! -f "$VERIF_DIR/target/libverif_entropy.so" ] || [ "$VERIF_DIR/shim/entropy.c" -nt "$VERIF_DIR/target/libverif_entropy.so" ]; then
  mkdir -p "$VERIF_DIR/target"
  gcc -O2 -shared -fPIC -o "$VERIF_DIR/target/libverif_entropy.so" "$VERIF_DIR/shim/entropy.c" -ldl
fi
cd "$REPO"
LOG="$VERIF_DIR/target/build-$FLAVOUR.log"
if ! cargo test -p ipa-core --lib --features "$FEATURES" --no-run --offline --message-format=json >"$LOG.json" 2>"$LOG"; then
  cat "$LOG" >&2
  grep -o '"rendered":"[^"]*error[^"]*' "$LOG.json" | head -20 >&2 || true
  exit 2
fi
python3 - "$LOG.json" <<'PY'
import json,sys
exe=None
for l in open(sys.argv[1]):
    try: m=json.loads(l)
    except Exception: continue
    if m.get('reason')=='compiler-artifact' and m.get('executable') and m['target']['name']=='ipa_core' and m['profile'].get('test'):
        exe=m['executable']
print(exe or '')
sys.exit(0 if exe else 2)
PY
