#!/bin/bash
# dev helper: runsc.sh <scenario> <first> <count> [tier] -> summary
BIN=$(/verif/build.sh sim | tail -1) || exit 2
OUT=$(mktemp /verif/target/dev-XXXX.jsonl)
VERIF_JOB='{"scenario":"'$1'","tier":"'${4:-quick}'","seeds":['$2','$3']}' VERIF_OUT=$OUT LD_PRELOAD=/verif/target/libverif_entropy.so RUST_LOG=off $BIN verif::entry --exact --nocapture --test-threads 1 >/dev/null 2>&1
python3 - $OUT <<'PY'
import json,collections,sys
c=collections.Counter(); cl=collections.Counter(); pr=collections.Counter(); oc=collections.Counter()
rows=[json.loads(l) for l in open(sys.argv[1])]
rows=[r for r in rows if 'verdict' in r]
for r in rows:
    c[r['verdict']]+=1; cl[r['class']]+=1
    oc[(r.get('sim') or {}).get('class')]+=1
    for k,v in r['probes'].items(): pr[k]+=v
print(dict(c),dict(cl),dict(pr),dict(oc))
shown=set()
for r in rows:
    if r['verdict'] not in ('pass',) and r['class'] not in shown:
        shown.add(r['class'])
        print('SEED',r['seed'],r['verdict'],r['class'],r['detail'][:700]); print('  PARAMS',json.dumps(r['params'])[:900])
if rows:
    st=[(r.get('sim') or {}).get('steps',0) for r in rows]
    print('runs',len(rows),'avg steps',sum(st)/len(rows),'nontrivial',sum(r['nontrivial'] for r in rows))
PY
rm -f $OUT
