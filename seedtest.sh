#!/bin/bash
# seedtest.sh <PROP> <patch.diff> [extra check args] : apply a seeded change to /repo, run the quick check, revert.
set -u
PROP=$1; PATCH=$2; shift 2
cd /repo && git status --short | grep -v '^??' && { echo "repo dirty"; exit 3; }
git -C /repo apply "$PATCH" || { echo "patch does not apply"; exit 3; }
cd /verif && VERIF_EVIDENCE_DIR=/verif/target/seedtest-evidence ./check $PROP "$@"; RC=$?
git -C /repo checkout -- .
echo "seedtest: check exit code $RC"
exit $RC
