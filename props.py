"""Property -> scenario table for the dsim driver (see DESIGN.md section 4)."""

COMMON_ASSUMPTIONS = [
    "shuttle models all atomics as SeqCst: weak-memory reorderings are not explored",
    "the repo's in-memory transport stands in for HTTP/2 ordered byte streams; the HTTP/TLS stack is not run",
    "seeded sampling of schedules and faults: a clean batch is evidence, not proof",
    "tokio runtime replaced by the shuttle executor through the repo's own `shuttle` feature (crate::sync, spawn, rand)",
]

COMPONENTS = {
    "real": ["all ipa-core code reached by the scenario (compiled from /repo's working tree with debug assertions)"],
    "stub": ["tokio runtime -> shuttle executor driven by SimScheduler", "HTTP/TLS transport -> repo's in-memory transport", "OS entropy -> seeded LD_PRELOAD shim"],
}

PROPS = {
    "C01": {
        "level": "exploration",
        "rule": "run = seeded report multiset from a grammar (imp+conv pairs, conv+conv with wrapping value sums, imp+imp with wrapping breakdown sums, keys with 3..11 reports, singles, only-impressions, "
                "only-conversions, one hot bucket driven past saturation of the 8-bit output instantiation; c01_deep: 65..90 pairs on one bucket of one shard = a third aggregation layer) x shards {1,2,3,5} x assignment plan (round-robin, random, all-to-one, one shard empty) x "
                "{semi-honest, malicious} x {no padding, relaxed padding} x output width {32-bit production, 8-bit} x gateway knobs x schedule policy; non-trivial iff >=1 report and >=1 multi-choice decision; "
                "distinct by (shape, schedule digest)",
        "scenarios": [
            {"name": "c01_hybrid", "quick": 72, "thorough": 3000, "offset": 1, "chunk": 3, "run_timeout": 900, "max_workers": 12, "det_seeds": 3, "min_runs": 25, "min_s": 400},
            {"name": "c01_deep", "quick": 12, "thorough": 400, "offset": 2, "chunk": 1, "run_timeout": 900, "max_workers": 12, "det_seeds": 1},
        ],
        "expected_probes": ["matched_pairs", "malicious_runs", "padding_runs", "third_aggregation_layer"],
        "components_real": ["protocol::hybrid::{hybrid_protocol, oprf, agg, breakdown_reveal}, ipa_prf::{shuffle, oprf_padding, prf_eval, aggregation, boolean_ops}, basics::shard_fin, both validators, PRSS, Gateway, in-memory MPC+shard transports (TestWorld<WithShards<S>>)"],
        "assumptions": ["the compact step-identifier implementation (cargo feature compact-gate) does not compile together with the repo's shuttle feature, so the 'either implementation of step identifiers' axis is not explored under the controlled scheduler (DESIGN.md section 4, C01)"],
    },
    "C02": {
        "level": "fault_enumeration",
        "rule": "run = a dense (every shard busy at every stage) malicious-mode hybrid query as in C01, executed honestly (must equal the reference), then replayed with the same seed while one of the three helpers "
                "rewrites one chunk it sends; the site is drawn from the honest run's channel inventory (about 1000-3000 channels) stratified by step name, over MPC and shard-to-shard traffic of that helper; "
                "each honest run serves 2 (thorough: 4) replays with different sites; one run in six uses the lane-cancelling attack on the 16-lane masked-PRF-input multiplication (+1/-1 in two lanes of the product message and of the opening copy); "
                "the same rule is applied to the shuffle stage (c05_tamper) and the MAC/PRF stage (c04_tamper) in isolation; "
                "non-trivial iff the rewritten chunk was delivered; distinct by (shape, site, schedule digest)",
        "scenarios": [
            {"name": "c02_tamper", "quick": 60, "thorough": 1200, "offset": 1, "chunk": 2, "run_timeout": 900, "max_workers": 12, "crash_ok": True, "det_seeds": 2, "min_runs": 20, "min_s": 400},
            # the same sound rule applied to the query's stages in isolation, where thousands of sites per minute are affordable
            {"name": "c05_tamper", "quick": 3000, "thorough": 60000, "offset": 2, "chunk": 20, "run_timeout": 120, "crash_ok": True, "max_workers": 12},
            {"name": "c04_tamper", "quick": 4000, "thorough": 100000, "offset": 3, "chunk": 50, "run_timeout": 120},
        ],
        "expected_probes": ["tamper_aborted_query", "stage_eval_prf", "stage_input_shuffle", "stage_aggregate", "tamper_rejected_or_aborted", "honest_helper_returned_error"],
        "components_real": ["the whole malicious hybrid query as in C01; the sharded malicious shuffle and the MAC-protected PRF/multiplication stage on their own"],
    },
    "C03": {
        "level": "fault_enumeration",
        "rule": "run = seeded Boolean circuit (and/or/add/sat_add/sub/gt/geq) over 1..40 records x vector width {1,16,32,256} x bit width 1..120 in DZKP-malicious mode, batched "
                "(validated_seq_join, 1..16 multiplications per gate, several proof batches incl. a partial last one) or single-proof; first executed honestly (must validate and be correct), "
                "then re-executed with the same seed while one helper rewrites one chunk it sends, the site drawn from the honest run's channel inventory stratified by step "
                "(multiplication messages of every bit step, proof shares, challenges, p*q and diff messages); non-trivial iff the rewritten chunk was delivered; distinct by (shape, site, schedule digest). "
                "c03_push: run = a crafted consistent batch pushed through DZKPUpgradedMaliciousContext::push on the three helpers - segment width {1,2,3,5,8,13,20,32,64,100,128,256,512,768} x records (exactly filling, "
                "one more/less than, or ragged against 1..40 storage blocks) x 1..3 gates x single validate / validate_record batches of 1..256 x value pattern {random, one of the 512 joint assignments everywhere, "
                "per-record stripes, all ones, all zeros}; must be accepted by all; in 2/3 of the runs the same batch is re-run with ONE recorded bit (entry x record x position, biased to block boundaries) flipped on one helper "
                "and must be rejected by at least one helper; single-validate runs push the records in a seeded permutation half of the time. "
                "c03_ba_tamper: the c03_tamper rule over Boolean-array multiplications (select, saturating subtraction on width {3,5,8,16,20,32,64} shares, 1..40 records)",
        "scenarios": [
            {"name": "c03_tamper", "quick": 3000, "thorough": 150000, "offset": 1, "chunk": 40, "run_timeout": 120, "crash_ok": True},
            {"name": "c03_push", "quick": 3000, "thorough": 200000, "offset": 2, "chunk": 100, "run_timeout": 120},
            {"name": "c03_ba_tamper", "quick": 2000, "thorough": 100000, "offset": 3, "chunk": 40, "run_timeout": 120, "crash_ok": True},
            {"name": "c03_tamper", "quick": 0, "thorough": 4000, "offset": 4, "chunk": 40, "run_timeout": 120, "crash_ok": True, "flavour": "mt", "thorough_only": True},
        ],
        "expected_probes": ["tamper_rejected_or_aborted", "site_bit", "site_generate_proof", "site_challenge", "site_diff", "site_p_times_q",
                            "honest_batch_accepted", "flip_rejected", "flip_entry_0", "flip_entry_6", "flip_in_later_batch", "width_3", "width_512", "pushed_in_permuted_order",
                            "site_array_multiplication", "site_proof_message", "ba_tamper_select", "ba_tamper_sat_sub"],
        "components_real": ["protocol::context::{dzkp_validator, dzkp_malicious, dzkp_field, batcher}, ipa_prf::{malicious_security, validation_protocol}, basics::mul::dzkp_malicious, boolean_ops, Gateway, in-memory transport"],
    },
    "C06": {
        "level": "exploration",
        "rule": "c06_prss: run = endpoints negotiated over the simulated network or made by make_participants, 1..24 seeded (step, index, width) queries over short and long (>100-byte common prefix) step names with widths {1,2,16,2048, 2049 blocks = up to and including the last permitted offset} "
                "and a sequential generator per helper; c06_xshard: gen_and_distribute on 3 helpers x {2,3,5} shards; reuse monitor: the debug-build UsedSet detector is armed in the fault-free workloads of "
                "C01/C04/C05/C07 (MAC batches over (records, active) grids incl. out-of-order batch completion, DZKP proof batches, select/sat_sub/share conversion, sharded shuffles over row counts x shards, whole hybrid queries incl. three aggregation layers) - a run is non-trivial iff it drew PRSS values on >=2 helpers; distinct by (shape, schedule digest)",
        "scenarios": [
            {"name": "c06_prss", "quick": 3000, "thorough": 100000, "offset": 1, "chunk": 100},
            {"name": "c06_xshard", "quick": 3000, "thorough": 100000, "offset": 2, "chunk": 150},
            {"name": "c04_mac", "quick": 1500, "thorough": 60000, "offset": 3, "chunk": 50, "prss_reuse_only": True, "run_timeout": 120},
            {"name": "c07_circ", "quick": 800, "thorough": 40000, "offset": 4, "chunk": 25, "prss_reuse_only": True, "run_timeout": 120},
            {"name": "c05_shuffle", "quick": 800, "thorough": 40000, "offset": 5, "chunk": 25, "prss_reuse_only": True, "run_timeout": 120},
            {"name": "c07_ba", "quick": 400, "thorough": 20000, "offset": 6, "chunk": 40, "prss_reuse_only": True, "run_timeout": 120},
            {"name": "c07_conv", "quick": 32, "thorough": 1000, "offset": 7, "chunk": 2, "prss_reuse_only": True, "run_timeout": 300},
            {"name": "c07_agg", "quick": 500, "thorough": 20000, "offset": 10, "chunk": 50, "prss_reuse_only": True, "run_timeout": 120},
            {"name": "c01_deep", "quick": 8, "thorough": 200, "offset": 8, "chunk": 1, "prss_reuse_only": True, "run_timeout": 900, "max_workers": 12, "det_seeds": 1},
            {"name": "c01_hybrid", "quick": 16, "thorough": 600, "offset": 9, "chunk": 2, "prss_reuse_only": True, "run_timeout": 900, "max_workers": 12, "det_seeds": 1},
        ],
        "expected_probes": ["blocks_compared", "negotiated_over_network", "multi_block_to_offset_cap", "xshard_nodes", "reuse_monitor_runs"],
        "components_real": ["protocol::prss::{Endpoint, crypto::{Generator, UsedSet}, seed}, helpers::{prss_protocol::negotiate, cross_shard_prss::gen_and_distribute}, plus every protocol of the monitored workloads"],
    },
    "C07": {
        "level": "exploration",
        "rule": "run = seeded Boolean circuit (and/or/xor/add with carry/sat_add/sub/gt/geq/integer multiplication with a signed second operand) x vector width {1,16,32,256} (plus 3 and 8, which exist in the semi-honest mode only) x operand widths 1..120 incl. unequal widths x semi-honest/DZKP-malicious x "
                "batched/single validation; one third of the runs enumerate ALL operand pairs of a width <= 4 across records and lanes, the rest use boundary {0,1,max,max-1,2^k,2^k-1} and random operands; "
                "every run executes under a seeded schedule policy and seeded gateway knobs; non-trivial iff >=1 multi-choice decision; distinct by (shape, schedule digest). "
                "c07_ba: multiplexer (select) and saturating subtraction on Boolean-array shares of width {3,5,8,16,20,32,64} (all operand pairs for sat_sub at width <= 5; equal / neighbouring operands biased), 1..700 records. "
                "c07_conv: convert_to_fp25519::<_,256,NP> for NP in {1,16}, 1..3 chunks of 256 values of width {1,8,32,64,100,127}, proof chunk {1,2}. "
                "c07_agg: aggregate_values called directly on 1..70 rows of {1,3,5,8}-bit values x {8,32,256} buckets x {8,16,32}-bit saturating output, as one call or as a history of calls over chunks of any size >= 1 that share the per-layer record counters. "
                "c04_mac (fault-free): field multiplication over Fp31/Fp32BitPrime/Fp25519, 16-lane Fp25519 and the pseudonym function g^(1/(k+x))",
        "scenarios": [
            {"name": "c07_circ", "quick": 1600, "thorough": 80000, "offset": 1, "chunk": 25, "run_timeout": 120},
            {"name": "c07_ba", "quick": 1200, "thorough": 60000, "offset": 2, "chunk": 40, "run_timeout": 120},
            {"name": "c07_conv", "quick": 96, "thorough": 4000, "offset": 3, "chunk": 3, "run_timeout": 300},
            {"name": "c07_agg", "quick": 1500, "thorough": 60000, "offset": 5, "chunk": 50, "run_timeout": 120},
            {"name": "c07_circ", "quick": 0, "thorough": 30000, "offset": 6, "chunk": 25, "run_timeout": 120, "flavour": "mt", "thorough_only": True},
            {"name": "c04_mac", "quick": 600, "thorough": 30000, "offset": 4, "chunk": 50, "run_timeout": 120},
        ],
        "expected_probes": ["operand_pairs", "exhaustive_small_width", "unequal_widths", "proof_batches", "ba_select", "ba_sat_sub", "ba_exhaustive", "conv_np1", "conv_np16", "prf_records", "vec16_records", "agg_rows", "agg_calls_sharing_counters", "agg_odd_chunk_then_another", "agg_saturated_buckets"],
        "components_real": ["protocol::basics::{mul::{semi_honest, dzkp_malicious, malicious}, if_else::select}, protocol::boolean::or, ipa_prf::boolean_ops::{addition_sequential, comparison_and_subtraction_sequential, share_conversion_aby}, ipa_prf::prf_eval, DZKP and MAC validators, Gateway, PRSS, in-memory transport"],
    },
    "C04": {
        "level": "fault_enumeration",
        "rule": "run = seeded MAC-protected workload over {Fp31, Fp32BitPrime, Fp25519} (upgrade -> multiply -> validate_record -> reveal, 1..24 records, active work {2,4,8,16} so that "
                "several MAC batches incl. a partial last one are formed; driven as a pipeline or 'two-phase' = all multiplications first, then validate_record for all records in a seeded order so that batches become ready "
                "out of order), the same on 16-lane Fp25519 shares (the production layout), or the real pseudonym function eval_dy_prf; executed honestly (must validate and open x*y resp. g^(1/(k+x))), then - in c04_tamper - "
                "replayed with the same seed while one helper adds +1 to one field element (or flips a bit) in one chunk it sends, the site drawn from the honest run's channel inventory stratified by step "
                "(upgrade, multiply, duplicate multiply, propagate u/w, reveal r, check-zero multiply and reveal, opening), or - 'consistent' attack - adds the same error to a product share it sends and to the copy of "
                "that share it contributes to the opening, or - 'lane_cancel', 16-lane shares - adds +1 to one lane and -1 to another lane of both messages, or - 'rush' (F1b: helpers as separate tasks, bytes travel when sent (hook H5), the corrupt helper's task is late) - additionally replaces its own product share of r*T in the batch's check-zero step once its neighbour has opened its shares, "
                "or - 'known_r' (F1c) - adds e to a product share, r*e to the duplicate product share and e to the opening copy with an r it has already seen opened; non-trivial iff delivered; distinct by (shape, site, schedule digest)",
        "scenarios": [
            {"name": "c04_mac", "quick": 2000, "thorough": 100000, "offset": 1, "chunk": 50, "run_timeout": 120},
            {"name": "c04_tamper", "quick": 6000, "thorough": 300000, "offset": 2, "chunk": 100, "run_timeout": 120, "crash_ok": True},
            # the same workloads on the build with the `multi-threading` feature: the records of one helper are separate tasks
            # whose steps interleave at every lock of the shared validator state
            {"name": "c04_mac", "quick": 1000, "thorough": 60000, "offset": 3, "chunk": 50, "run_timeout": 120, "flavour": "mt"},
            {"name": "c04_tamper", "quick": 0, "thorough": 60000, "offset": 4, "chunk": 100, "run_timeout": 120, "crash_ok": True, "flavour": "mt", "thorough_only": True},
        ],
        "stat_rules": [{"num": "fp31_tamper_accepted_wrong", "den": "fp31_tamper_delivered", "p0": 0.1, "class": "mac_fp31_acceptance_rate", "scenario": "c04_tamper"}],
        "expected_probes": ["mac_batches", "partial_last_batch", "prf_records", "tamper_rejected_or_aborted", "fp31_tamper_delivered"],
        "components_real": ["protocol::context::{validator (MAC), malicious}, basics::{mul::malicious, check_zero, reveal}, ipa_prf::prf_eval, secret_sharing::replicated::malicious, Gateway, PRSS, in-memory transport"],
    },
    "C05": {
        "level": "exploration",
        "rule": "run = seeded (shards in {1,2,3,5}, row type in {32-bit, 64-bit, 112-bit hybrid report, 32-bit aggregateable report}, 0..80 unique rows, "
                "assignment plan incl. empty shards and fewer rows than shards, semi-honest/malicious, gateway knobs, policy); tampered runs re-execute the same seed with one "
                "chunk of one helper's own shuffle traffic (MPC or shard-to-shard) rewritten at a site drawn from the honest run's channel inventory (stratified by step); "
                "non-trivial iff >=1 multi-choice decision and >=2 rows (fault-free) or the tampered chunk was delivered; distinct by (shape, site, schedule digest)",
        "scenarios": [
            {"name": "c05_shuffle", "quick": 3000, "thorough": 60000, "offset": 1, "chunk": 25, "run_timeout": 120},
            {"name": "c05_tamper", "quick": 4000, "thorough": 80000, "offset": 2, "chunk": 20, "run_timeout": 120, "crash_ok": True, "max_workers": 12},
        ],
        "expected_probes": ["empty_shards", "rows_fewer_than_shards", "malicious_runs", "honest_helper_returned_error"],
        "components_real": ["protocol::ipa_prf::shuffle::{sharded, malicious}, report::hybrid Shuffleable impls, cross-shard reshard, PRSS, Gateway, in-memory MPC+shard transports (TestWorld<WithShards<S>>)"],
    },
    "C10": {
        "level": "fault_enumeration",
        "rule": "run = 1..6 seeded impression/conversion reports (site-domain lengths {0,1,2,20,100,255} incl. non-printable ASCII and NUL, extreme timestamps, NaN/inf/subnormal floats, 3 key ids) encrypted with real HPKE; "
                "then for one sample record EVERY single-bit flip at EVERY byte offset and EVERY truncation length are decrypted, plus garbage/zero/all-ones records of many lengths, a different key pair and an empty registry; "
                "finally the length-delimited body is parsed through seeded chunkings (with Pending) intact and damaged (zero-length record, torn tail, flipped length prefix, random bit flips, short record); "
                "non-trivial always; distinct by (record count, the sample record's plaintext attributes, its ciphertext) - the number of mutations executed is reported in probes.mutations",
        "scenarios": [
            {"name": "c10_reports", "quick": 3000, "thorough": 150000, "offset": 1, "chunk": 100},
        ],
        "expected_probes": ["mutations", "rejected", "bitflips_exhaustive_bytes", "nul_domain_rejected_at_construction"],
        "components_real": ["report::{hybrid, hybrid_info}, hpke::{open_in_place, seal_in_place, KeyRegistry}, helpers::transport::stream::input::LengthDelimitedStream, helpers::stream::TryFlattenItersExt"],
        "components_stubbed": ["request body -> harness plan stream (seeded chunks, Pending)"],
    },
    "C11": {
        "level": "exploration",
        "rule": "run = the real Query::execute on 3 helpers x {1,2,3,5} shards with 2..40 distinct encrypted reports (every shard non-empty) and 0..3 duplicate copies inserted at seeded positions into seeded shards' inputs of "
                "a seeded subset of helpers; cut off once every node has returned or sent its first message after the tag exchange; non-trivial iff >=1 multi-choice decision; distinct by (shape, schedule digest)",
        "scenarios": [
            {"name": "c11_dups", "quick": 1500, "thorough": 60000, "offset": 1, "chunk": 25, "run_timeout": 300},
        ],
        "expected_probes": ["duplicate_runs", "distinct_runs", "copies_in_other_shard_input", "outcome_cutoff"],
        "components_real": ["query::runner::hybrid::Query::execute (decrypt, reshard_aad by tag, UniqueTagValidator), report::hybrid::UniqueTag, Gateway shard channels, in-memory transports"],
    },
    "C12": {
        "level": "exploration",
        "rule": "c12_noise: dp_for_histogram (discrete Laplace) on three simulated helpers, output widths {8,16,32}, {32,256} buckets, epsilon in {0.3..10}, boundary/random exact buckets, semi-honest/malicious, seeded schedule; "
                "the three passes' raw draws are re-derived in a twin world with the same seed from the same PRSS streams. c12_padding: apply_dp_padding on both report kinds (0..12 real rows), with a forged dummy-count "
                "message in a third of the runs. c12_law (ride-along, nothing scheduled): truncation point, sampler law (chi-square over 20000 draws) and constructor ranges on a seeded (epsilon 0.01..20, delta 1e-2..1e-12, "
                "sensitivity 1..1000) grid. Non-trivial iff >=1 multi-choice decision (law runs: always); distinct by (configuration, schedule digest)",
        "scenarios": [
            {"name": "c12_noise", "quick": 400, "thorough": 20000, "offset": 1, "chunk": 10, "run_timeout": 300},
            {"name": "c12_padding", "quick": 600, "thorough": 30000, "offset": 2, "chunk": 20, "run_timeout": 300, "crash_ok": True},
            {"name": "c12_law", "quick": 600, "thorough": 30000, "offset": 3, "chunk": 20, "run_timeout": 300},
        ],
        "expected_probes": ["draws_checked", "draws_equal_minus_one", "width_32_runs", "dummy_rows", "padding_tamper_runs", "law_configs"],
        "components_real": ["protocol::dp::{dp_for_histogram, apply_laplace_noise_pass, ShiftedTruncatedDiscreteLaplace, NoiseParams}, ipa_prf::oprf_padding::{apply_dp_padding, insecure::OPRFPaddingDp, distributions::TruncatedDoubleGeometric}, integer_add, DZKP validators, PRSS sequential generators"],
    },
    "C13": {
        "level": "exploration",
        "rule": "run = seeded world (3 helpers, optionally x3 shards), 1-5 logical channels (helper and shard channels, shared and distinct steps, "
                "message sizes {1,2,3,4,8,14,32}, totals 1..64 or indeterminate, active {2,4,16}, read sizes 1..4096) each driven by its own "
                "sender/receiver tasks through the real seq_join window; non-trivial iff >=1 multi-choice decision and >=2 records; "
                "distinct by (world shape, schedule digest)",
        "scenarios": [
            {"name": "c14_ur", "quick": 20000, "thorough": 400000, "offset": 2, "chunk": 2000},
            {"name": "c13_gw", "quick": 60000, "thorough": 600000, "offset": 1, "chunk": 400},
        ],
        "expected_probes": ["close_checks", "shard_streams_ended"],
        "components_real": ["helpers::Gateway, gateway::{send,receive,transport}, in-memory MPC + shard transports, StreamCollection, OrderingSender, UnorderedReceiver, seq_join"],
    },
    "C15": {
        "level": "exploration",
        "rule": "run = seeded (variant in {seq_join over a pending source, seq_join+try_collect, SeqJoin::try_join, SeqJoin::parallel_join}, window 1..8, "
                "length 0..40, release permutation, error positions, optionally with the tasks behind the first error never completing, forward-dependency distance < window, source burst plan, policy); "
                "non-trivial iff >=1 multi-choice decision and >=2 tasks; distinct by (plan shape, schedule digest)",
        "scenarios": [
            {"name": "c15_sj", "quick": 60000, "thorough": 3000000, "offset": 1, "chunk": 3000},
            {"name": "c15_sj", "quick": 20000, "thorough": 1000000, "offset": 2, "chunk": 3000, "flavour": "mt"},
        ],
        "expected_probes": ["nonfront_polls", "source_pending", "dep_runs", "error_runs"],
        "components_real": ["seq_join::{seq_join, seq_try_join_all, SeqJoin::try_join, SeqJoin::parallel_join} (local implementation; multi_thread.rs in flavour mt, thorough tier)"],
        "components_stubbed": ["joined tasks -> harness gate futures released by an environment task", "tokio runtime -> shuttle executor driven by SimScheduler"],
    },
    "C16": {
        "level": "exploration",
        "rule": "run = seeded (records per batch 1..4, total 1..20 incl. non-multiples, arrival permutation and yield counts, which batches fail, "
                "batch completion order, driving style in {task per record, join_all, seq_join(window = batch size)}, policy); misuse runs append one illegal call; "
                "non-trivial iff >=1 multi-choice decision and >=2 records; distinct by (plan shape, schedule digest)",
        "scenarios": [
            {"name": "c16_batcher", "quick": 60000, "thorough": 3000000, "offset": 1, "chunk": 3000},
            {"name": "c16_misuse", "quick": 15000, "thorough": 500000, "offset": 2, "chunk": 1500},
        ],
        "expected_probes": ["batches_completed_out_of_order", "partial_last_batch", "failing_batches", "misuse_panicked", "misuse_err"],
        "components_real": ["protocol::context::batcher::Batcher (crate::sync::Mutex = shuttle), tokio::sync::watch, seq_join"],
        "components_stubbed": ["batch validation closure -> harness future (logs, waits for an environment token, returns the planned verdict)"],
    },
    "C17": {
        "level": "fault_enumeration",
        "rule": "run = one seeded byte string x one parser (fixed-size records single/batch with infallible and fallible element types, length-delimited, re-chunking buffer) "
                "executed under ALL 2^(n-1) chunkings when n <= 11 (14 in the thorough tier) or 4-24 seeded chunkings otherwise, each also decorated with empty chunks and Pending, "
                "and optionally cut by a transport error at a seeded chunk; non-trivial iff the byte string has >= 2 bytes; distinct by (parser, sizes, exhaustive flag) - "
                "chunkings executed are reported separately in probes.chunkings_executed",
        "scenarios": [
            {"name": "c17_parse", "quick": 20000, "thorough": 1500000, "offset": 1, "chunk": 1000},
        ],
        "expected_probes": ["chunkings_executed", "pending_injected", "exhaustive_streams"],
        "components_real": ["helpers::transport::stream::{input::{BufDeque, RecordsStream, LengthDelimitedStream}, buffered::BufferedBytesStream}"],
        "components_stubbed": ["network body -> harness plan stream (chunks, empty chunks, Pending, injected error)"],
    },
    "C18": {
        "level": "exploration",
        "rule": "run = 3 helpers x {1,2,3} shards of real HelperApps; one client issues a seeded history of 3..16 calls over {new_query, inputs to one/all nodes, query_status (a third of them as two simultaneous requests from two client tasks), complete on one/all leaders, kill} addressed to "
                "arbitrary nodes, optionally with one node rejecting its n-th prepare request (F6); query tasks (TestMultiply) run in the background under the seeded schedule; a reference state machine "
                "(absent / awaiting inputs / running-maybe-finished / completed / unknown-after-failed-create) predicts the class of every answer; non-trivial iff >=1 multi-choice decision; distinct by (history shape, schedule digest)",
        "scenarios": [
            {"name": "c18_lifecycle", "quick": 12000, "thorough": 600000, "offset": 1, "chunk": 300, "run_timeout": 120},
        ],
        "expected_probes": ["ops_executed", "completions", "reject_fired"],
        "components_real": ["query::{processor, state, completion, executor}, app::{HelperApp, request handlers}, helpers::transport::handler, query::runner::test_multiply, PRSS negotiation, Gateway, in-memory MPC rings + shard mesh with request handlers"],
        "components_stubbed": ["report collector -> harness client task", "HTTP layer's clear-streams-after-complete/kill -> harness reset of the node's in-memory streams (as TestApp does)", "tokio task abort -> shuttle detach (a killed task keeps running)"],
    },
    "C19": {
        "level": "exploration",
        "rule": "run = seeded (shards in {1,2,3,5}, per-shard input lengths 0..200 incl. empty shards, picker in {table, all-to-one, round-robin, all-stay, skewed, PRSS}, "
                "API in {reshard_iter, reshard_try_stream, reshard_aad}, size-hint slack, Pending plan, optional failing/over-long input on one node, a cross-shard chunk cut short or carrying an undecodable record, one record addressed to a shard that does not exist (must be loud), gateway knobs, policy); "
                "non-trivial iff >=1 multi-choice decision and >=1 record; distinct by (shape, schedule digest)",
        "scenarios": [
            {"name": "c19_reshard", "quick": 6000, "thorough": 300000, "offset": 1, "chunk": 200},
        ],
        "expected_probes": ["empty_input_shards", "input_faults"],
        "components_real": ["protocol::context::{reshard_iter, reshard_stream, reshard_try_stream}, query::runner::reshard_tag::reshard_aad, Gateway shard channels, in-memory shard transport, TestWorld<WithShards<S>>"],
    },
    "C14": {
        "level": "exploration",
        "rule": "run = seeded (message size, capacity, read size, record count, writer/receiver task layout, chunking, policy); "
                "non-trivial iff the scheduler had >=1 decision with more than one runnable task and >=2 records; "
                "distinct by (workload shape, schedule digest)",
        "scenarios": [
            {"name": "c14_os", "quick": 40000, "thorough": 2000000, "offset": 1, "chunk": 2500},
            {"name": "c14_ur", "quick": 40000, "thorough": 2000000, "offset": 2, "chunk": 2500},
            {"name": "c14_ring", "quick": 40000, "thorough": 2000000, "offset": 3, "chunk": 10000},
        ],
        "expected_probes": ["requests_ahead_of_capacity", "buffer_smaller_than_stream", "ring_wraps", "empty_chunks"],
        "components_real": ["helpers::buffers::{CircularBuf, OrderingSender, UnorderedReceiver} (crate::sync = shuttle)"],
        "components_stubbed": ["tokio runtime -> shuttle executor driven by SimScheduler", "network -> harness feeder task over an mpsc channel"],
    },
}

NOT_APPLICABLE = {
    "C08": "pure functions of their operands (field axioms, canonical representation): no schedule, clock, fault, history or second party for the property to depend on; deciding it needs input enumeration / algebraic certificates, a different technique (DESIGN.md section 5)",
    "C09": "pure bytes<->value and matrix<->transpose functions: nothing for a simulator to schedule or fault; the encoders are exercised incidentally by every simulated message but that is not a decision of 'every value type and every byte string' (DESIGN.md section 5)",
    "C20": "stateless request->status function of the axum router plus TLS acceptor configuration, living only in net/ (hyper/axum/rustls over real sockets) which the simulator replaces by the in-memory transport that has no authentication layer; no interleaving, fault or history dimension (DESIGN.md section 5)",
}

MANIFEST_TEXT = {
    "C18": {
        "text": "Seeded exploration of query-lifecycle histories against a reference state machine, on real Processors/HelperApps wired through the repo's in-memory MPC rings and shard mesh, with real (cheap) query tasks running in the background under the controlled scheduler. Judged: an invalid request is refused and later answers are consistent with an unchanged state; a failed creation leaves no entry on the node that executed it; results are handed out once and afterwards a new query can be created (also on sharded helpers); the leader's status lies between the minimum of its shards' possible statuses; no call sequence whose tasks return makes a helper panic or the client hang. Two genuine defects were repaired (fix: c063277, 9a5b724); one (residue after a failed create -> peer panics) is a known finding. Sampling, not proof.",
        "design_ref": "DESIGN.md section 4, C18 and section 7",
        "note": "one client, sequential except for pairs of simultaneous status requests (background query tasks are the other concurrency); panics inside the in-memory transport's acknowledgement path and after shuttle's non-cancelling abort are stub artefacts and are counted, not judged; residue on OTHER nodes after a failed create is modelled as 'unknown' (the code documents the missing rollback)",
        "technique": "deterministic simulation: seeded API-history + schedule search against an executable reference state machine",
    },
    "C12": {
        "text": "The multi-party clauses are decided by simulation: (a) released bucket = exact + the three pairwise-generated draws modulo the output width, with the draws re-derived independently (twin world, same seed, same PRSS streams, the repo's sampler; signed arithmetic done by the oracle) at widths 8/16/32 and 32/256 buckets under seeded schedules; (b) dummy records: all helpers append the same number of rows, real rows untouched and first, every dummy a consistent sharing of a zero-value row, a forged count message rejected by the excluded helper. The pure clauses (smallest truncation point with outer mass <= delta, pmf proportional to exp(-epsilon|x-n|), constructor ranges) have no schedule or fault in them; they ride along as invariants evaluated on a seeded configuration grid (chi-square threshold at 6.5 sigma) and are reported separately. Three genuine defects found here were repaired (fix: fb48ada, 34434ae, d8792f3).",
        "design_ref": "DESIGN.md section 4, C12 and section 5",
        "note": "delta and sensitivity of the noise pass are the library defaults (1e-6, 2^3); the dummy-count law itself is covered only through the sampler test, not through the padding protocol's own draws",
        "technique": "deterministic simulation: seeded schedule search with a twin-world draw oracle; configuration-grid invariants ride along",
    },
    "C10": {
        "text": "Fault enumeration at the client-input seam of a helper: honest reports must decrypt to exactly the original shares and metadata (and not under another key); every single-bit flip at every offset and every truncation of a sample record, garbage records and damaged framing must yield an error value - never Ok, never a panic. Per sample record the bit-flip and truncation spaces are enumerated completely; records and chunkings are seeded samples. Two genuine defects found by this check were repaired in /repo (fix: commits 1360967, 4e986b5) and are listed as fixed in known_findings.json.",
        "design_ref": "DESIGN.md section 4, C10 and section 7",
        "note": "AES-GCM/HPKE forgery probability assumed negligible; only helper 1's share of each report is encrypted/decrypted (the three shares go through identical code)",
        "technique": "deterministic simulation of the input-stream seam: exhaustive per-record bit-flip/truncation injection + seeded chunking, exact round-trip oracle",
    },
    "C11": {
        "text": "Seeded exploration of the real query entry point on 3 helpers x S shards with real encryption and real reshard-by-tag under a controlled scheduler: for every helper that received duplicated copies, exactly the shards tag mod S (tag recomputed independently from the ciphertext bytes) return the duplicate error, and they had sent no message of a later step; helpers/shards without duplicates never report one; all-distinct inputs are never rejected. Runs are cut off after the duplicate check. Sampling, not proof.",
        "design_ref": "DESIGN.md section 4, C11",
        "note": "after a duplicate on a subset of helpers the helpers' inputs are inconsistent, so other failures of that run are not judged; every shard gets at least one report (a query size of zero cannot be expressed)",
        "technique": "deterministic simulation: seeded schedule + duplicate-placement search over the real query entry point, with scheduler cut-off (crash-at-point)",
    },
    "C01": {
        "text": "Seeded exploration of the real hybrid_protocol (all stages) on 3 helpers x {1,2,3,5} shards under a controlled scheduler, semi-honest and malicious, with and without dummy padding, with reports generated from a grammar that forces the statement's corner classes and arbitrary shard assignment. Oracle: an independent implementation of the statement's plaintext rule (pairs only, wrap at value/key width, saturate at the output width), compared with the reconstruction of the three helpers' leader-shard output; all helpers must return Ok and hold consistent sharings. Three genuine defects (hang / ZeroRecords error when a shard has nothing to process at some stage) are listed in known_findings.json and reported as KNOWN-FINDING lines. Sampling, not proof.",
        "design_ref": "DESIGN.md section 4, C01 and section 7",
        "note": "the step-identifier axis (compact gate) is not explored: it does not build with the shuttle seam; dummy padding uses the repo's 'relaxed' parameters; production type instantiation (BA8, BA3, BA32) plus an 8-bit output instantiation for saturation",
        "technique": "deterministic simulation: seeded schedule + input/assignment search over the real sharded query, independent plaintext reference model",
    },
    "C02": {
        "text": "Fault enumeration over the whole malicious hybrid query: the honest run supplies the channel inventory and the reference; the same seed is replayed with one helper (each of the three) rewriting one chunk it sends on a site stratified by protocol step (padding, shuffle, conversion, PRF, reshard, group-by-sum, reveal, aggregation, finalize - MPC and shard traffic). Violation iff both honest helpers complete the query on every shard and their output shares do not determine the reference histogram. Sites are sampled and stratified stage -> gate -> channel: about 120 whole-query sites per quick run (two replays per honest run), thousands in the thorough tier; because a whole-query replay costs seconds, the same sound rule is also applied to the two stages with their own integrity mechanisms (malicious sharded shuffle; MAC-protected multiplication / PRF incl. consistent and lane-cancelling multi-message attacks) in isolation, thousands of sites per quick run.",
        "design_ref": "DESIGN.md section 4, C02",
        "note": "residual acceptance probabilities: 2^-32 shuffle tags, ~2^-50 DZKP, 2^-252 MAC; message rewriting (single-site; the multi-message, adaptive and rushing attacks of the stage scenarios c04_tamper / c05_tamper), never adversarial code; three known findings reached through the stage scenarios (MAC keys of the shuffle opened too early, twice; MAC check-zero defeated by a late helper), see known_findings.json; an honest helper aborting (allocation failure on a forged length) counts as 'no output'",
        "technique": "deterministic simulation: honest run + same-seed replay with single-site Byzantine rewriting across the whole query, inventory stratified by step",
    },
    "C06": {
        "text": "Seeded exploration: (1) PRSS endpoints produced by the real key exchange over the simulated network (and by make_participants) are queried with seeded (step, index, width) tuples incl. multi-block values up to the 2^11 offset cap and sequential generators: right_i == left_{i+1} on every block, and all blocks of all (helper pair, step, index, offset) are pairwise distinct; (2) gen_and_distribute on 3 x {2,3,5} shards under seeded schedules: every shard of a helper derives the leader's values and they match the neighbouring helpers' shards; (3) the 'never drawn twice' clause is a monitor: the debug-build reuse detector is armed while the fault-free MAC, DZKP-circuit and sharded-shuffle workloads run over their size/batch grids, and its panic is routed here. Sampling, not proof.",
        "design_ref": "DESIGN.md section 4, C06",
        "note": "'unrelated' is checked as pairwise distinctness of 128-bit blocks (collision probability 2^-128 per pair), not as statistical independence; the reuse detector exists only in debug builds (the simulator is one)",
        "technique": "deterministic simulation: PRSS set-up over the simulated network + cross-helper/cross-shard equality oracle + global reuse monitor over other scenarios",
    },
    "C04": {
        "text": "Fault enumeration over the real MAC validator and openings: honest executions over three fields and the real pseudonym function must validate and open exactly x*y / g^(1/(k+x)) on all helpers; then the same seed is replayed with one helper adding an error to one field element (or flipping a bit) of one chunk it sends, at a site drawn from the honest run's inventory stratified over every step of upgrade, multiply, duplicate multiply, propagate-u/w, reveal-r, check-zero and the opening. Violation iff both honest helpers validate and open a value different from the true one (32-bit and 255-bit fields); for the 5-bit field the acceptance rate over the batch must stay below 0.1 plus a 6.5-sigma margin. Sites are sampled. Beyond blind rewriting the corrupt helper also mounts multi-message attacks: the same error in a product share and in the copy it opens, a lane-cancelling error on 16-lane shares, and two adaptive ones in which it reacts to what has been opened to it - 'known r' (error e / r*e with an r it has already seen) and 'rush' (it is late in the check-zero step and cancels r*T once its neighbour has opened its shares; this one succeeds on the unchanged tree and is recorded as a known finding). The workloads also run on the multi-threading build.",
        "design_ref": "DESIGN.md section 4, C04",
        "note": "two known findings (a late, rushing helper defeats the check-zero step; a helper that withholds its product shares gets r opened to it - both on the unchanged tree), see known_findings.json; soundness error 1/|F| per check is assumed for the large fields (2^-32, 2^-252); the Fp31 rule has a one-sided false-alarm probability < 1e-9 for any seed",
        "technique": "deterministic simulation: honest run + same-seed replay with single-site additive/bit error, channel inventory stratified by protocol step",
    },
    "C03": {
        "text": "Fault enumeration over the real DZKP validators: every run first executes a seeded Boolean circuit honestly in malicious mode (all three helpers must validate; results must be correct - the 'honest batches are accepted' half), then replays the same seed with one helper rewriting one chunk at a site drawn from the honest run's channel inventory, stratified by step so that multiplication messages of every bit step and every proof message kind are hit. Violation iff both honest helpers validate and (a) the site was a multiplication message, or (b) their shares no longer open to the right result. Sites are sampled, not all enumerated, in the quick tier. A second scenario pushes crafted, mutually consistent intermediates of every value pattern straight into the proof store (all must be accepted) and re-runs the batch with a single recorded bit flipped on one helper (fault F2; at least one helper must reject).",
        "design_ref": "DESIGN.md section 4, C03",
        "note": "soundness error of the proof system (~2^-50 over Fp61) is assumed negligible",
        "technique": "deterministic simulation: honest run + same-seed replay with single-site Byzantine rewriting, channel inventory stratified by protocol step",
    },
    "C07": {
        "text": "Seeded exploration of the real interactive Boolean building blocks on three simulated helpers in semi-honest and DZKP-malicious mode, with record- and bit-parallelism scheduled by the seed. Oracle: big-integer plaintext function of the operands (incl. carry, saturation, truncation/zero-extension of the second operand) and consistency of the three output sharings. Widths <= 4 are enumerated exhaustively; larger widths use boundary and random operands. Sampling beyond that.",
        "design_ref": "DESIGN.md section 4, C07",
        "note": "covers multiplication (AND; field multiplication in MAC mode), multiplexer, OR, XOR, add-with-carry, saturating add, subtract, saturating subtract, both comparisons, share conversion to Fp25519 and the pseudonym function; bucket aggregation (directly, incl. multi-call histories, and end-to-end in the C01 scenarios); boolean_ops::multiplication::integer_mul (private and unused in the crate) is reached through hook H7",
        "technique": "deterministic simulation: seeded schedule + operand search over the real circuits with a big-integer reference",
    },
    "C05": {
        "text": "Seeded exploration of the real sharded shuffle (semi-honest and malicious) on 3 helpers x {1,2,3,5} shards under a controlled scheduler, with unique attributable rows and arbitrary shard assignment. Fault-free oracle: the three helpers hold equally many rows per shard, every output row is a consistent replicated sharing, and the union over shards reconstructs exactly the input multiset. Tampered runs (malicious mode): the same seed is re-executed with one chunk of one helper's own MPC or shard-to-shard shuffle traffic rewritten; violation iff both honest helpers return rows on every shard while their shares no longer determine the input multiset (accepted-but-harmless rewrites of padding/trailing bytes are counted, not judged). One tampered run in four uses an adaptive corrupt helper that forges a row with a valid tag as soon as the MAC keys have been opened to it (on that or another shard) while its last table is still going out: on this tree that succeeds in two situations, both recorded as known findings (keys are opened per shard and by the helper that finishes first, with no barrier). Sampling, not proof.",
        "design_ref": "DESIGN.md section 4, C05 and section 7.2",
        "note": "two known findings (premature opening of the MAC keys), see known_findings.json; MAC tags are 32 bits: a blindly forged row passes with probability 2^-32 per run; an honest helper that aborts (e.g. allocation failure on a forged cardinality) counts as 'no output'",
        "technique": "deterministic simulation: seeded schedule search + single-site Byzantine message rewriting over the real sharded shuffle",
    },
    "C19": {
        "text": "Seeded exploration of the real resharding family on 3 helpers x {1,2,3,5} shards under a controlled scheduler: every helper/shard node is a task, the cross-shard exchange timing is decided by the seed, inputs have unique attributable records. Oracle computed from inputs and picks alone: each shard ends with exactly [from shard 0][from shard 1].. in origin input order, identical on the three helpers (multiset conservation for PRSS picks), no deadlock (unused channels closed); a failing or over-long input stream on a node makes that node return Err and no node of that helper returns Ok with a partial table. Sampling, not proof.",
        "design_ref": "DESIGN.md section 4, C19",
        "note": "when one shard's input fails the sibling shards of that helper block forever (no close is sent); that is counted as 'operation failed', as the statement allows",
        "technique": "deterministic simulation: seeded schedule + input-fault search over the real reshard code on a sharded in-memory world",
    },
    "C17": {
        "text": "Fault enumeration at the I/O seam of the real stream parsers: for short byte strings every chunking is executed (plus empty chunks and Pending between chunks), longer ones get seeded chunkings, and a transport error is injected at seeded chunk positions. Oracle: independent reference parse of the concatenated bytes - exactly the encoded records in order, clean end iff well-formed, an error (never a clean end, never a wrong record) for trailing partial data / undecodable record / transport error, never a panic. Enumeration is complete per byte string for n <= 11 (quick) / 14 (thorough); byte strings themselves are sampled.",
        "design_ref": "DESIGN.md section 4, C17",
        "note": "after an error only a prefix of the records is required (the code documents that items buffered in the same poll are discarded); process_stream_by_chunks/Chunk::unpack are exercised through the protocol scenarios, not here",
        "technique": "deterministic simulation of the byte-stream seam: exhaustive chunking + injected stream faults against a reference parser",
    },
    "C15": {
        "text": "Seeded exploration of the real seq_join / try_join / parallel_join with gate futures released by an environment task in seeded orders, pending sources, error plans and forward dependencies inside the window. Oracle: exactly-once in input order; at every poll of a joined task the number of started-unfinished tasks is >= min(window, inputs available); every dependency pattern of distance < window terminates (deadlock/step-cap = violation); the fallible variants return the first error in input order; parallel_join returns all-in-order or one of the planned errors. Sampling, not proof.",
        "design_ref": "DESIGN.md section 4, C15",
        "note": "both implementations run in both tiers (the multi-threaded, spawning one on the `mt` build); its window lower bound is judged when the join returns Pending (it fills its window across several scheduling steps), and the cancellation-marker panic of tasks still in flight after a planned error is a shuttle artefact (tokio confines a task's panic to the task) that is counted, not judged",
        "technique": "deterministic simulation: seeded schedule + release-order search over the real join combinators, history oracle",
    },
    "C16": {
        "text": "Seeded exploration of the real Batcher shared by record tasks under a controlled scheduler; the batch check is a harness future finishing in an environment-chosen order with a planned verdict. History oracle: a record resolves only after every record of its batch requested validation and the batch check returned; Ok iff the check succeeded; the check runs exactly once per batch over exactly that batch's records; last partial batch closes at total (no deadlock); misuse (record twice, beyond total, touching a validated batch) ends in Err or panic, never Ok. Sampling, not proof.",
        "design_ref": "DESIGN.md section 4, C16",
        "note": "bare Batcher through hook H3; the two validators that embed it are exercised by the C03/C04 scenarios",
        "technique": "deterministic simulation: seeded arrival/completion-order + schedule search, history (happens-before) oracle",
    },
    "C13": {
        "text": "Seeded exploration of real Gateways over the repo's in-memory MPC and shard networks: every channel endpoint is a scheduler-controlled task, records are driven through the real seq_join window with seeded yield points and request orders, batching knobs (active work, read size, message size, determinate/indeterminate totals) are drawn per run. Oracle: each receive(i) returns the attributable payload of (channel, i), no foreign payload ever appears, receive(total)/send(total) fail, shard streams end exactly after total, and no deadlock/step-cap occurs while the window is kept full. Sampling, not proof.",
        "design_ref": "DESIGN.md section 4, C13",
        "note": "window discipline as the protocols use it (seq_join(active)); under-full windows legitimately stall and are not judged; SeqCst atomics; in-memory transport",
        "technique": "deterministic simulation: seeded schedule + batching-knob search over the real gateway/transport stack, attributable payload oracle",
    },
    "C14": {
        "text": "Seeded exploration of the real CircularBuf / OrderingSender / UnorderedReceiver under a controlled scheduler: writer, closer, reader, receiver and network tasks are interleaved by uniform, sticky, PCT and starvation policies; the emitted byte stream, chunk sizes and every recv(i) are compared with a sequential byte-queue model and every deadlock or step-cap is a lost wake-up. Sampling, not proof.",
        "design_ref": "DESIGN.md section 4, C14",
        "note": "shuttle's SeqCst atomics; writers/receivers follow the documented usage (each index written/requested once; sequential tasks ask in ascending order); capacities, sizes and record counts bounded (<= 64 records, <= 6 writer tasks)",
        "technique": "deterministic simulation: seeded schedule search over shuttle-controlled tasks + reference byte-queue model",
    },
}
