// libverif_entropy.so — LD_PRELOAD shim that makes OS entropy a deterministic, per-thread stream.
//
// Every run of the simulator executes on a fresh OS thread.  std's HashMap `RandomState`, rand's
// `thread_rng` / `from_entropy` and the `getrandom` crate all obtain their seed material through
// getrandom(2) (either the libc wrapper or `syscall(SYS_getrandom, ..)`).  This shim answers those
// calls from a counter-based generator whose counter is thread-local and starts at zero, so that a
// run's "entropy" depends only on how many bytes the run itself asked for — never on the process,
// on the worker count or on what ran before.  /dev/urandom is not used by the code under test.
#define _GNU_SOURCE
#include <dlfcn.h>
#include <stdarg.h>
#include <stddef.h>
#include <stdint.h>
#include <sys/syscall.h>
#include <sys/types.h>
#include <unistd.h>

static __thread uint64_t ctr = 0;
static __thread uint64_t salt = 0x5eed5eed5eed5eedULL;

static uint64_t splitmix(uint64_t x) {
  x += 0x9E3779B97F4A7C15ULL;
  x = (x ^ (x >> 30)) * 0xBF58476D1CE4E5B9ULL;
  x = (x ^ (x >> 27)) * 0x94D049BB133111EBULL;
  return x ^ (x >> 31);
}

static void fill(unsigned char *buf, size_t len) {
  size_t i = 0;
  while (i < len) {
    uint64_t v = splitmix(salt ^ splitmix(ctr++));
    for (int k = 0; k < 8 && i < len; k++, i++) buf[i] = (unsigned char)(v >> (8 * k));
  }
}

// Called by the harness at the start of every run (looked up with dlsym, so the harness also works
// without the shim, just without this guarantee).
void verif_entropy_reseed(uint64_t s) {
  ctr = 0;
  salt = splitmix(s ^ 0x5eed5eed5eed5eedULL);
}

ssize_t getrandom(void *buf, size_t buflen, unsigned int flags) {
  (void)flags;
  fill((unsigned char *)buf, buflen);
  return (ssize_t)buflen;
}

int getentropy(void *buf, size_t len) {
  fill((unsigned char *)buf, len);
  return 0;
}

long syscall(long number, ...) {
  static long (*real)(long, ...) = NULL;
  va_list ap;
  va_start(ap, number);
  long a = va_arg(ap, long), b = va_arg(ap, long), c = va_arg(ap, long), d = va_arg(ap, long),
       e = va_arg(ap, long), f = va_arg(ap, long);
  va_end(ap);
  if (number == SYS_getrandom) {
    fill((unsigned char *)a, (size_t)b);
    return b;
  }
  if (!real) real = (long (*)(long, ...))dlsym(RTLD_NEXT, "syscall");
  return real(number, a, b, c, d, e, f);
}
