#!/bin/bash
# run_matrix.sh [ids...] : apply every seeded change to /repo in turn, run its property's quick check, revert,
# and record exit code + violation classes in seeded/MATRIX.json. /repo must be clean; never commits there.
set -u
cd /verif
ids=("$@"); [ ${#ids[@]} -eq 0 ] && ids=($(ls seeded | grep -E '^C[0-9]+-[0-9]+$'))
[ -z "$(git -C /repo status --porcelain)" ] || { echo "/repo not clean" >&2; exit 2; }
for id in "${ids[@]}"; do
  # the check that is expected to catch it: "check_property" if the meta names one (a change caught by another property's check), else its own
  prop=$(python3 -c "import json;m=json.load(open('seeded/$id/meta.json'));print(m.get('check_property') or m['property'])")
  git -C /repo apply "/verif/seeded/$id/patch.diff" || { echo "$id: patch does not apply" >&2; continue; }
  out=$(VERIF_EVIDENCE_DIR=/verif/target/seedtest-evidence ./check "$prop" --tier quick 2>&1); rc=$?
  git -C /repo checkout -- . 
  classes=$(echo "$out" | grep -oE "^VIOLATION property=$prop replay=[^ ]+" | sed -E "s/.*replays\/$prop-//; s/-[0-9]+\.json//" | sort -u | tr '\n' ' ')
  python3 - "$id" "$prop" "$rc" "$classes" <<'PY'
import json,sys,os,time
p='/verif/seeded/MATRIX.json'
m=json.load(open(p)) if os.path.exists(p) else {}
m[sys.argv[1]]={"property":sys.argv[2],"quick_check_exit":int(sys.argv[3]),"violation_classes":sys.argv[4].split(),"detected":int(sys.argv[3])==1,"when":time.strftime("%Y-%m-%d %H:%M")}
json.dump(m,open(p,'w'),indent=1,sort_keys=True)
PY
  echo "$id $prop exit=$rc $classes"
done
[ -z "$(git -C /repo status --porcelain)" ] || { echo "/repo left dirty" >&2; exit 2; }
