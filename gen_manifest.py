#!/usr/bin/env python3
"""Regenerate MANIFEST.json from props.py (claimed checks) + the static not-applicable list."""
import json
import os
import subprocess
import sys

VERIF = os.path.dirname(os.path.abspath(__file__))
sys.path.insert(0, VERIF)
from props import PROPS, MANIFEST_TEXT, NOT_APPLICABLE  # noqa: E402

ALL = ["C%02d" % i for i in range(1, 21)]


def main():
    hooks = subprocess.run(["git", "-C", "/repo", "log", "--format=%H %s", "--grep=^verif hook"], stdout=subprocess.PIPE, text=True).stdout.strip().splitlines()
    checks = []
    for pid in ALL:
        if pid not in PROPS:
            continue
        t = MANIFEST_TEXT[pid]
        checks.append({
            "property_id": pid,
            "quick_cmd": "./check %s --tier quick" % pid,
            "thorough_cmd": "./check %s --tier thorough" % pid,
            "evidence_file": "/verif/evidence/%s.json" % pid,
            "replay_cmd_template": "./check %s --replay {path}" % pid,
            "engine": "dsim",
            "level_claimed": {"category": PROPS[pid]["level"], "text": t["text"], "design_ref": t["design_ref"]},
            "level_note": t["note"],
            "technique": t["technique"],
        })
    na = []
    for pid in ALL:
        if pid in PROPS:
            continue
        na.append({"property_id": pid, "reason": NOT_APPLICABLE.get(pid, "check not built yet in this session (planned in DESIGN.md section 4); not claimed")})
    m = {
        "version": 1,
        "setup_cmd": "./build.sh sim >/dev/null",
        "hooks": {
            "guard": "--cfg ipa_verif (rustc cfg, declared in ipa-core/build.rs; all hook code is #[cfg(all(test, ipa_verif))])",
            "enable": "RUSTFLAGS='--cfg ipa_verif' IPA_VERIF_DIR=/verif cargo test -p ipa-core --lib --features shuttle --no-run --offline (done by ./build.sh)",
            "baseline_off_cmd": "cd /repo && cargo nextest run --workspace --no-fail-fast --test-threads 8 --offline || cargo test --workspace --no-fail-fast --offline",
            "source_commits": [h.split()[0] for h in hooks][::-1],
            "add_only": True,
        },
        "engines": [{
            "name": "dsim",
            "path": "/verif/harness (Rust, included into ipa-core's unit-test binary) + /verif/check (driver)",
            "serves_properties": [c["property_id"] for c in checks],
            "kind_free_text": "deterministic simulation with fault injection: the repo's shuttle seam driven by a seeded scheduler (uniform / sticky / PCT / starve policies), seeded workloads and fault plans, independent oracles, minimised replay files",
        }],
        "checks": checks,
        "not_applicable": na,
        "notes": "All checks rebuild the simulator from /repo's working tree (cargo, incremental) before running. VERIF_SEED selects the seed block; default is fixed. Exit 2 = harness error.",
    }
    with open(os.path.join(VERIF, "MANIFEST.json"), "w") as f:
        json.dump(m, f, indent=1)
    print("MANIFEST.json: %d checks, %d not applicable/not claimed" % (len(checks), len(na)))


if __name__ == "__main__":
    main()
